//go:build verif

package flight

import "bytes"

// VerifLen reports the number of cached handshake messages (overlay only).
func (h *Cache) VerifLen() int {
	h.mu.Lock()
	defer h.mu.Unlock()

	return len(h.cache)
}

// VerifDuplicates reports how many cached items are byte-identical copies (same sender, epoch,
// message sequence, type and bytes) of an item cached before them (overlay only).
func (h *Cache) VerifDuplicates() int {
	h.mu.Lock()
	defer h.mu.Unlock()
	n := 0
	for i, a := range h.cache {
		for _, b := range h.cache[:i] {
			if a.MessageSequence == b.MessageSequence && a.IsClient == b.IsClient && a.Epoch == b.Epoch && a.Typ == b.Typ && bytes.Equal(a.Data, b.Data) {
				n++

				break
			}
		}
	}

	return n
}
