//go:build verif

package flight

// VerifLen reports the number of cached handshake messages (overlay only).
func (h *Cache) VerifLen() int {
	h.mu.Lock()
	defer h.mu.Unlock()

	return len(h.cache)
}
