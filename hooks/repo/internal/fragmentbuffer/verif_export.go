//go:build verif

package fragmentbuffer

// VerifSize reports what the buffer actually retains (overlay only): the bytes and fragments
// reachable from its cache, counted by walking it, not the buffer's own accounting - an entry the
// accounting misses is exactly what a bloat oracle has to see.
func (f *FragmentBuffer) VerifSize() (bytes, fragments, messages int) {
	for _, m := range f.cache {
		fragments += len(m.fragmentByOffset)
		for _, fr := range m.fragmentByOffset {
			bytes += len(fr.data)
		}
	}
	if f.totalBufferSize > bytes {
		bytes = f.totalBufferSize
	}
	if f.totalFragmentCount > fragments {
		fragments = f.totalFragmentCount
	}

	return bytes, fragments, len(f.cache)
}
