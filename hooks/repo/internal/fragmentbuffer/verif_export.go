//go:build verif

package fragmentbuffer

// VerifSize reports buffered bytes and fragments (overlay only).
func (f *FragmentBuffer) VerifSize() (bytes, fragments, messages int) {
	return f.totalBufferSize, f.totalFragmentCount, len(f.cache)
}
