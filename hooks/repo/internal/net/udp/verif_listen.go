//go:build verif

package udp

import (
	"context"
	"net"
)

// VerifSocket, when set, supplies the socket a listener reads from instead of
// a real UDP socket (overlay only; see /verif DESIGN.md, rewrite R2).
var VerifSocket func(network, addr string) net.PacketConn

func verifListenPacket(lc *ListenConfig, network, addr string) (net.PacketConn, error) {
	if VerifSocket != nil {
		if pc := VerifSocket(network, addr); pc != nil {
			return pc, nil
		}
	}

	return lc.ListenConfig.ListenPacket(context.Background(), network, addr)
}
