//go:build verif

package state

// VerifSecrets returns copies of every retained DTLS 1.3 traffic secret by
// epoch and direction (overlay only; read at quiescent points).
func (s *TrafficKeyState) VerifSecrets() (write, read map[uint16][]byte) {
	write, read = map[uint16][]byte{}, map[uint16][]byte{}
	if s == nil {
		return write, read
	}
	s.mu.RLock()
	defer s.mu.RUnlock()
	add := func(m map[uint16][]byte, g *TrafficGeneration) {
		if g != nil {
			m[g.Epoch] = append([]byte(nil), g.Secret...)
		}
	}
	add(write, s.writeCurrent)
	for _, g := range s.writeOld {
		add(write, g)
	}
	add(read, s.readCurrent)
	for _, g := range s.readOld {
		add(read, g)
	}

	return write, read
}
