//go:build verif

// Added to package dtls by the /verif build overlay only (never part of the
// repository): read-only views of connection internals for the simulator's
// oracles, and entry points to unexported sender-side code paths.

package dtls

import (
	"sync/atomic"

	dtlsstate "github.com/pion/dtls/v3/internal/state"
	"github.com/pion/dtls/v3/pkg/protocol/handshake"
)

// VerifFragmentHandshake runs the real sender-side fragmentation.
func VerifFragmentHandshake(c *Conn, h *handshake.Handshake) ([][]byte, error) {
	return c.fragmentHandshake(h)
}

// VerifQueueLen reports the number of datagrams queued for a later epoch.
func VerifQueueLen(c *Conn) int {
	c.lock.RLock()
	defer c.lock.RUnlock()

	return len(c.encryptedPackets)
}

// VerifLocalSeq returns a copy of the per-epoch next local sequence numbers.
func VerifLocalSeq(c *Conn) []uint64 {
	c.lock.RLock()
	defer c.lock.RUnlock()
	common := dtlsstate.CommonState(c.state)

	return append([]uint64(nil), common.LocalSequenceNumber...)
}

// VerifHandshakeCacheLen reports the number of cached handshake messages.
func VerifHandshakeCacheLen(c *Conn) int {
	return c.handshakeCache.VerifLen()
}

// VerifSession is the negotiated view of one endpoint (overlay only).
type VerifSession struct {
	Version            uint16
	LocalCID           []byte
	RemoteCID          []byte
	LocalEpoch         uint16
	RemoteEpoch        uint16
	ExtendedMasterSec  bool
	Established        bool
	NegotiatedProtocol string
}

// VerifSessionOf reads the negotiated view at a quiescent point.
func VerifSessionOf(c *Conn) VerifSession {
	c.lock.RLock()
	defer c.lock.RUnlock()
	common := dtlsstate.CommonState(c.state)
	v := VerifSession{
		Version:            uint16(common.LocalVersion.Major)<<8 | uint16(common.LocalVersion.Minor),
		LocalCID:           append([]byte(nil), common.LocalConnectionID()...),
		RemoteCID:          append([]byte(nil), common.RemoteConnectionID...),
		LocalEpoch:         common.LocalEpoch(),
		RemoteEpoch:        common.RemoteEpoch(),
		Established:        c.isHandshakeCompletedSuccessfully(),
		NegotiatedProtocol: common.NegotiatedProtocol,
	}
	if s12, ok := c.state.(*dtlsstate.State); ok {
		v.ExtendedMasterSec = s12.ExtendedMasterSecret
	}

	return v
}

// VerifSizes are the sizes of the per-connection buffers an unauthenticated
// sender can influence (overlay only).
type VerifSizes struct {
	QueuedDatagrams   int
	ReplayDetectors   int
	LocalSeqEpochs    int
	RemoteSeqEpochs   int
	HandshakeCache    int
	HandshakeCacheDup int // byte-identical copies among them (computed only when the cache is large)
	FragmentBytes     int
	FragmentCount     int
	FragmentMessages  int
	PendingACKs       int
	RemoteEpoch       uint16
	LocalEpoch        uint16
}

// VerifSizesOf reads the buffer sizes at a quiescent point.
func VerifSizesOf(c *Conn) VerifSizes {
	c.lock.RLock()
	defer c.lock.RUnlock()
	common := dtlsstate.CommonState(c.state)
	b, n, m := c.fragmentBuffer.VerifSize()

	dup := 0
	if c.handshakeCache.VerifLen() > 300 {
		dup = c.handshakeCache.VerifDuplicates()
	}

	return VerifSizes{
		HandshakeCacheDup: dup,
		QueuedDatagrams:   len(c.encryptedPackets),
		ReplayDetectors:   len(common.ReplayDetector),
		LocalSeqEpochs:    len(common.LocalSequenceNumber),
		RemoteSeqEpochs:   len(common.RemoteSequenceNumber),
		HandshakeCache:    c.handshakeCache.VerifLen(),
		FragmentBytes:     b,
		FragmentCount:     n,
		FragmentMessages:  m,
		PendingACKs:       len(c.pendingACKs),
		RemoteEpoch:       common.RemoteEpoch(),
		LocalEpoch:        common.LocalEpoch(),
	}
}

// VerifTrafficSecrets returns the DTLS 1.3 traffic secrets an endpoint retains.
func VerifTrafficSecrets(c *Conn) (write, read map[uint16][]byte) {
	c.lock.RLock()
	defer c.lock.RUnlock()
	s13, ok := c.state.(*dtlsstate.State13)
	if !ok {
		return map[uint16][]byte{}, map[uint16][]byte{}
	}

	return s13.TrafficKeys.VerifSecrets()
}

// VerifSkipLocalSeq advances the next record number of the current sending epoch by n. For the
// peer this is indistinguishable from n application records that the network lost, which lets a
// simulated session reach large record numbers without paying for every record.
func VerifSkipLocalSeq(c *Conn, n uint64) {
	c.lock.Lock()
	defer c.lock.Unlock()
	common := dtlsstate.CommonState(c.state)
	epoch := common.LocalEpoch()
	for len(common.LocalSequenceNumber) <= int(epoch) {
		common.LocalSequenceNumber = append(common.LocalSequenceNumber, uint64(0))
	}
	atomic.AddUint64(&common.LocalSequenceNumber[epoch], n)
}

// VerifSkipRemoteSeq advances the highest record number seen from the peer in the given epoch by
// n: the receiving half of VerifSkipLocalSeq for DTLS 1.3, whose records carry only the low 16
// bits of their number, so that a receiver cannot follow a jump of more than 2^15 on its own.
func VerifSkipRemoteSeq(c *Conn, epoch uint16, n uint64) {
	c.lock.Lock()
	defer c.lock.Unlock()
	common := dtlsstate.CommonState(c.state)
	for len(common.RemoteSequenceNumber) <= int(epoch) {
		common.RemoteSequenceNumber = append(common.RemoteSequenceNumber, uint64(0))
	}
	atomic.AddUint64(&common.RemoteSequenceNumber[epoch], n)
}
