//go:build verif

// Added to package dtls by the /verif build overlay only (never part of the
// repository): read-only views of connection internals for the simulator's
// oracles, and entry points to unexported sender-side code paths.

package dtls

import (
	dtlsstate "github.com/pion/dtls/v3/internal/state"
	"github.com/pion/dtls/v3/pkg/protocol/handshake"
)

// VerifFragmentHandshake runs the real sender-side fragmentation.
func VerifFragmentHandshake(c *Conn, h *handshake.Handshake) ([][]byte, error) {
	return c.fragmentHandshake(h)
}

// VerifQueueLen reports the number of datagrams queued for a later epoch.
func VerifQueueLen(c *Conn) int {
	c.lock.RLock()
	defer c.lock.RUnlock()

	return len(c.encryptedPackets)
}

// VerifLocalSeq returns a copy of the per-epoch next local sequence numbers.
func VerifLocalSeq(c *Conn) []uint64 {
	c.lock.RLock()
	defer c.lock.RUnlock()
	common := dtlsstate.CommonState(c.state)

	return append([]uint64(nil), common.LocalSequenceNumber...)
}

// VerifHandshakeCacheLen reports the number of cached handshake messages.
func VerifHandshakeCacheLen(c *Conn) int {
	return c.handshakeCache.VerifLen()
}
