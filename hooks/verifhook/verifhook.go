// Package verifhook is the seam between the instrumented pion/dtls (and
// pion/transport/netctx) sources and the /verif deterministic simulator.
//
// The package is copied by the /verif build step into a scratch copy of
// pion/transport (import path github.com/pion/transport/v4/verifhook) so that
// both modules can import it. It is never part of the shipped library: the
// instrumented sources exist only in the scratch overlay.
//
// With no simulation installed (H == nil) every entry point degenerates to the
// uninstrumented behaviour: Lock calls the real Lock, Yield returns at once.
package verifhook

import "runtime/debug"

// Hooks is what a running simulation installs.
type Hooks interface {
	// Yield is a scheduling point. The simulator may park the calling
	// goroutine (durably, on a bubble channel) and resume it later.
	Yield(site string)
	// LockGate returns a channel that is closed by the next Unlock; a
	// goroutine that failed TryLock waits on it (durably blocked).
	LockGate() <-chan struct{}
	// Unlocked is called after every Unlock.
	Unlocked()
	// Contended is called once per failed TryLock (statistics only).
	Contended(site string)
	// Panicked is called from a deferred recover in instrumented goroutines.
	Panicked(v any, stack []byte)
	// Probe counts reachability of a named branch.
	Probe(name string)
}

// H is the installed simulation, or nil. It is written only while no
// instrumented goroutine is running (between simulated runs).
var H Hooks

// Lock acquires a mutex cooperatively: a scheduling point, then TryLock in a
// loop, waiting on the simulator's gate between attempts.
func Lock(try func() bool, lock func(), site string) {
	h := H
	if h == nil {
		lock()

		return
	}
	h.Yield(site)
	for {
		gate := h.LockGate()
		if try() {
			return
		}
		h.Contended(site)
		<-gate
	}
}

// Unlock releases a mutex and wakes cooperative waiters.
func Unlock(unlock func()) {
	unlock()
	if h := H; h != nil {
		h.Unlocked()
	}
}

// Yield is an explicit scheduling point.
func Yield(site string) {
	if h := H; h != nil {
		h.Yield(site)
	}
}

// Probe counts a reach probe.
func Probe(name string) {
	if h := H; h != nil {
		h.Probe(name)
	}
}

// Recover is deferred first in every instrumented `go func() {...}()` body.
// Under simulation a panic in a library goroutine is recorded as an
// observation of the run (and the goroutine ends) instead of killing the
// worker process; without a simulation the panic propagates unchanged.
func Recover() {
	h := H
	if h == nil {
		return
	}
	if v := recover(); v != nil {
		h.Panicked(v, debug.Stack())
	}
}
