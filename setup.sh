#!/bin/bash
# Run once after a fresh restore (offline): builds the driver and pre-warms the
# Go build cache, including the runtime rebuild required by the select overlay.
set -eu
cd "$(dirname "$0")"
export GOFLAGS=-mod=mod GOPROXY=off GOSUMDB=off GOTOOLCHAIN=local GOWORK=off
mkdir -p bin evidence
(cd tools && go1.26.8 build -o ../bin/simcheck ./cmd/simcheck)
d=$(mktemp -d)
bin/simcheck build "$d"
rm -rf "$d"
echo "setup ok"
