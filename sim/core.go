// Package verifsim is the deterministic simulator for pion/dtls (DESIGN.md §3).
//
// One run = one synctest bubble. The bubble's root goroutine is the controller:
// it owns virtual time, the network agenda and the choice of which parked
// goroutine proceeds. Everything random is drawn through a Chooser, which in
// generation mode draws from one PCG stream and records every non-default
// decision, and in replay mode only looks decisions up.
package verifsim

import (
	"container/heap"
	"fmt"
	"hash/fnv"
	"math/rand/v2"
	"os"
	"runtime"
	"sort"
	"strconv"
	"sync"
	"sync/atomic"
	"testing/synctest"
	"time"

	"github.com/pion/transport/v4/verifhook"
)

// Dec is one recorded decision. The zero value is the default choice.
type Dec struct {
	A int64 `json:"a,omitempty"`
	B int64 `json:"b,omitempty"`
	C int64 `json:"c,omitempty"`
}

func (d Dec) IsZero() bool { return d == Dec{} }

// Chooser is the single source of every random decision of a run.
type Chooser struct {
	Replay bool
	rng    *rand.Rand
	Dec    map[string]Dec
	ctr    map[string]int
	Draws  int
}

func NewGenChooser(seed uint64) *Chooser {
	return &Chooser{rng: rand.New(rand.NewPCG(seed, seed^0x9e3779b97f4a7c15)), Dec: map[string]Dec{}, ctr: map[string]int{}}
}

func NewReplayChooser(dec map[string]Dec) *Chooser {
	if dec == nil {
		dec = map[string]Dec{}
	}

	return &Chooser{Replay: true, Dec: dec, ctr: map[string]int{}}
}

// Draw returns the next decision of the named stream. In generation mode gen
// is called with the run's PRNG; in replay mode the recorded value (or the
// zero default) is returned and gen is not called.
func (c *Chooser) Draw(stream string, gen func(r *rand.Rand) Dec) Dec {
	idx := c.ctr[stream]
	c.ctr[stream] = idx + 1
	c.Draws++
	key := stream + "/" + strconv.Itoa(idx)
	if c.Replay {
		return c.Dec[key]
	}
	d := gen(c.rng)
	if !d.IsZero() {
		c.Dec[key] = d
	}

	return d
}

// Event is one entry of the run's history.
type Event struct {
	Seq  uint64
	At   time.Duration // virtual time since run start
	Kind string        // emit, deliver, drop, dup, inject, op-call, op-ret, park, wake, ...
	Ep   string
	Info string
	Data []byte `json:"-"`
}

func (e Event) String() string {
	return fmt.Sprintf("#%d t=%s %s %s %s", e.Seq, e.At, e.Kind, e.Ep, e.Info)
}

type agendaItem struct {
	at  time.Duration
	seq uint64
	run func()
}
type agendaHeap []agendaItem

func (h agendaHeap) Len() int { return len(h) }
func (h agendaHeap) Less(i, j int) bool {
	if h[i].at != h[j].at {
		return h[i].at < h[j].at
	}

	return h[i].seq < h[j].seq
}
func (h agendaHeap) Swap(i, j int) { h[i], h[j] = h[j], h[i] }
func (h *agendaHeap) Push(x any)   { *h = append(*h, x.(agendaItem)) }
func (h *agendaHeap) Pop() any {
	old := *h
	n := len(old)
	x := old[n-1]
	*h = old[:n-1]

	return x
}

type parkedG struct {
	goid uint64
	site string
	wake chan struct{}
}

// SchedPolicy says how scheduling points behave.
type SchedPolicy struct {
	// ParkPermille is the probability (‰) that a goroutine parks at a yield
	// point and lets the controller choose who continues. 0 = canonical schedule.
	ParkPermille int
	// Active gates the policy (e.g. only during the data phase).
	Active bool
}

// Sim is one simulated run.
type Sim struct {
	Ch      *Chooser
	start   time.Time
	mu      sync.Mutex
	agenda  agendaHeap
	seq     uint64
	evseq   uint64
	Log     []Event
	KeepLog bool

	parked  []*parkedG
	wakeCtl chan struct{}
	gate    chan struct{}
	ctlGoid uint64

	Policy SchedPolicy

	Panics     []string
	Probes     map[string]int
	Faults     map[string]int
	NContended int
	Parks      int
	Steps      int64
	schedHash  uint64
	traceHash  uint64

	// OnStep, if set, runs on the controller at every quiescent point.
	OnStep func(step int64)

	nets []*SimNet
	// MaxSteps bounds the controller steps of one run; exceeding it is
	// reported as a livelock/storm instead of running (and allocating) forever.
	MaxSteps int64
	MaxEmits int // emitted-datagram budget of one run (storm detector)
	emits    int
	overrun  bool
	uniq     int64
	// wallAbort: the overrun was the real-time guard, which depends on machine load and is
	// therefore never a verdict (an endless loop that makes no controller step is caught by
	// the watchdogs and confirmed by replay instead)
	wallAbort bool
	abort     *atomic.Bool // set by the real-time watchdog when the run takes too long
	opsLive   atomic.Int64
	stepCtr   *atomic.Int64 // watchdog progress counter (process-global)
	failed    []string
}

// NewSim must be called inside the bubble.
// SetAbortFlag installs the watchdog's wall-budget flag.
func (s *Sim) SetAbortFlag(f *atomic.Bool) { s.abort = f }

func NewSim(ch *Chooser, stepCtr *atomic.Int64) *Sim {
	s := &Sim{
		Ch:       ch,
		start:    time.Now(),
		wakeCtl:  make(chan struct{}, 1),
		gate:     make(chan struct{}),
		Probes:   map[string]int{},
		Faults:   map[string]int{},
		stepCtr:  stepCtr,
		ctlGoid:  runtime.VerifGoid(),
		KeepLog:  true,
		MaxSteps: 120_000,
		MaxEmits: 2500,
	}
	if v := os.Getenv("SIM_MAXSTEPS"); v != "" { // experiments only: is a livelock a long finite storm?
		if n, err := strconv.ParseInt(v, 10, 64); err == nil {
			s.MaxSteps = n
		}
	}
	verifhook.H = s

	return s
}

// Net returns a handle that can close every socket created in this run.
func (s *Sim) Net() *netCloser { return &netCloser{s} }

type netCloser struct{ s *Sim }

func (n *netCloser) CloseAll() {
	for _, sn := range n.s.nets {
		sn.CloseAll()
	}
}

// Detach uninstalls the hooks (end of run).
func (s *Sim) Detach() { verifhook.H = nil }

func (s *Sim) Now() time.Duration { return time.Since(s.start) }

func (s *Sim) Record(kind, ep, info string, data []byte) uint64 {
	s.mu.Lock()
	defer s.mu.Unlock()
	s.evseq++
	h := fnv.New64a()
	var b [8]byte
	for i := 0; i < 8; i++ {
		b[i] = byte(s.traceHash >> (8 * i))
	}
	h.Write(b[:])
	h.Write([]byte(kind))
	h.Write([]byte(ep))
	h.Write([]byte(info))
	s.traceHash = h.Sum64()
	if s.KeepLog && len(s.Log) < 50_000 {
		s.Log = append(s.Log, Event{Seq: s.evseq, At: s.Now(), Kind: kind, Ep: ep, Info: info, Data: data})
	}

	return s.evseq
}

// EventSeq returns the current global event sequence number.
func (s *Sim) EventSeq() uint64 {
	s.mu.Lock()
	defer s.mu.Unlock()

	return s.evseq
}

func (s *Sim) TraceHash() uint64 { return s.traceHash }
func (s *Sim) SchedHash() uint64 { return s.schedHash }

func (s *Sim) Fault(kind string) {
	s.mu.Lock()
	s.Faults[kind]++
	s.mu.Unlock()
}

// Fail records an oracle failure (first one wins for the signature).
func (s *Sim) Fail(format string, args ...any) {
	s.mu.Lock()
	s.failed = append(s.failed, fmt.Sprintf(format, args...))
	s.mu.Unlock()
	s.poke()
}

func (s *Sim) Failures() []string {
	s.mu.Lock()
	defer s.mu.Unlock()

	return append([]string(nil), s.failed...)
}

func (s *Sim) poke() {
	select {
	case s.wakeCtl <- struct{}{}:
	default:
	}
}

// At schedules fn on the controller at virtual time now+d.
func (s *Sim) After(d time.Duration, fn func()) {
	s.mu.Lock()
	s.seq++
	heap.Push(&s.agenda, agendaItem{at: s.Now() + d, seq: s.seq, run: fn})
	s.mu.Unlock()
	s.poke()
}

// Go starts a harness goroutine inside the bubble. A panic in it is recorded.
func (s *Sim) Go(name string, fn func()) {
	s.opsLive.Add(1)
	go func() {
		defer func() {
			if v := recover(); v != nil {
				buf := make([]byte, 16<<10)
				buf = buf[:runtime.Stack(buf, false)]
				s.Panicked(v, buf)
			}
			s.opsLive.Add(-1)
			s.poke()
		}()
		fn()
	}()
}

// ---- verifhook.Hooks ------------------------------------------------------

var debugSched = os.Getenv("SIM_DEBUG_SCHED") != ""

func (s *Sim) Yield(site string) {
	if debugSched {
		s.Record("yield", site, "", nil)
	}
	if !s.Policy.Active || s.Policy.ParkPermille == 0 {
		return
	}
	gid := runtime.VerifGoid()
	if gid == s.ctlGoid {
		return
	}
	s.mu.Lock()
	d := s.Ch.Draw("y", func(r *rand.Rand) Dec {
		if r.IntN(1000) < s.Policy.ParkPermille {
			return Dec{A: 1}
		}

		return Dec{}
	})
	if d.A == 0 {
		s.mu.Unlock()

		return
	}
	g := &parkedG{goid: gid, site: site, wake: make(chan struct{})}
	s.parked = append(s.parked, g)
	s.Parks++
	s.mu.Unlock()
	s.poke()
	<-g.wake
}

func (s *Sim) LockGate() <-chan struct{} {
	s.mu.Lock()
	defer s.mu.Unlock()

	return s.gate
}

func (s *Sim) Unlocked() {
	s.mu.Lock()
	old := s.gate
	s.gate = make(chan struct{})
	s.mu.Unlock()
	close(old)
}

func (s *Sim) Contended(string) {
	s.mu.Lock()
	s.NContended++
	s.mu.Unlock()
}

func (s *Sim) Panicked(v any, stack []byte) {
	s.mu.Lock()
	s.Panics = append(s.Panics, fmt.Sprintf("panic: %v\n%s", v, stack))
	s.mu.Unlock()
	s.poke()
}

func (s *Sim) Probe(name string) {
	s.mu.Lock()
	s.Probes[name]++
	s.mu.Unlock()
}

// ---- controller -------------------------------------------------------------

func (s *Sim) releaseOneParked() bool {
	s.mu.Lock()
	n := len(s.parked)
	if n == 0 {
		s.mu.Unlock()

		return false
	}
	sort.Slice(s.parked, func(i, j int) bool { return s.parked[i].goid < s.parked[j].goid })
	d := s.Ch.Draw("p", func(r *rand.Rand) Dec { return Dec{A: int64(r.IntN(n))} })
	i := int(d.A)
	if i < 0 || i >= n {
		i = 0
	}
	g := s.parked[i]
	s.parked = append(s.parked[:i], s.parked[i+1:]...)
	// interleaving signature: rank among parked + site
	h := fnv.New64a()
	var b [8]byte
	for k := 0; k < 8; k++ {
		b[k] = byte(s.schedHash >> (8 * k))
	}
	h.Write(b[:])
	h.Write([]byte{byte(i), byte(n)})
	h.Write([]byte(g.site))
	s.schedHash = h.Sum64()
	s.mu.Unlock()
	close(g.wake)

	return true
}

// Run drives the simulation until done() holds at a quiescent point, the
// virtual horizon passes, or a panic/oracle failure was recorded.
// It returns true iff done() became true.
func (s *Sim) Run(done func() bool, horizon time.Duration) bool {
	return s.run(done, horizon, true)
}

// Drain is Run that keeps going after recorded failures (teardown).
func (s *Sim) Drain(done func() bool, horizon time.Duration) bool {
	return s.run(done, horizon, false)
}

func (s *Sim) run(done func() bool, horizon time.Duration, stopOnFail bool) bool {
	deadline := s.Now() + horizon
	for {
		synctest.Wait()
		s.Steps++
		if s.stepCtr != nil {
			s.stepCtr.Add(1)
		}
		if s.abort != nil && s.abort.Load() && !s.overrun {
			s.overrun = true
			s.wallAbort = true
			s.mu.Lock()
			s.failed = append(s.failed, fmt.Sprintf("run exceeded its wall-clock budget after %d controller steps at virtual t=%v: livelock, storm or super-linear slowdown", s.Steps, s.Now()))
			s.mu.Unlock()
		}
		if s.overrun && stopOnFail {
			return false
		}
		limit := s.MaxSteps + 2000*int64(s.Now()/time.Second) // legitimate timer traffic grows with virtual time
		if !stopOnFail {
			limit += 200_000 // teardown gets a further allowance
		}
		if s.MaxSteps > 0 && s.Steps > limit {
			if !s.overrun {
				s.overrun = true
				s.mu.Lock()
				s.failed = append(s.failed, fmt.Sprintf("step budget of %d controller steps exhausted at virtual t=%v: livelock or retransmission storm", s.MaxSteps, s.Now()))
				s.mu.Unlock()
			}

			return false
		}
		if s.releaseOneParked() {
			continue
		}
		if s.OnStep != nil {
			s.OnStep(s.Steps)
		}
		s.mu.Lock()
		bad := len(s.Panics) > 0 || len(s.failed) > 0
		s.mu.Unlock()
		if bad && stopOnFail {
			return false
		}
		if done() {
			return true
		}
		now := s.Now()
		s.mu.Lock()
		var next *agendaItem
		if len(s.agenda) > 0 {
			it := s.agenda[0]
			next = &it
			if it.at <= now {
				heap.Pop(&s.agenda)
				s.mu.Unlock()
				it.run()

				continue
			}
		}
		s.mu.Unlock()
		if now >= deadline {
			return false
		}
		target := deadline
		if next != nil && next.at < target {
			target = next.at
		}
		timer := time.NewTimer(target - now)
		select {
		case <-timer.C:
		case <-s.wakeCtl:
			timer.Stop()
		}
	}
}

// Settle lets everything runnable run and releases parked goroutines, without
// letting virtual time pass.
func (s *Sim) Settle() {
	for {
		synctest.Wait()
		if !s.releaseOneParked() {
			return
		}
	}
}

// Uniq returns d plus a small offset (< 1 µs) that is different for every call of a run.
// Every duration the harness turns into a timer (sleeps of workload goroutines, context
// timeouts, deadlines) goes through it: two timers that expire at the same virtual nanosecond
// fire in an order that depends on the process's timer-heap history, which would make a run
// depend on which runs the worker process executed before it.
func (s *Sim) Uniq(d time.Duration) time.Duration {
	s.uniq++

	return d + time.Duration(1+(s.uniq*37)%997)*time.Nanosecond
}

// Sleep is time.Sleep(s.Uniq(d)).
func (s *Sim) Sleep(d time.Duration) { time.Sleep(s.Uniq(d)) }

// Overrun reports whether the step budget was exhausted.
func (s *Sim) Overrun() bool { return s.overrun }

// WallAborted reports whether the run was cut short by the real-time guard.
func (s *Sim) WallAborted() bool { return s.wallAbort }

// OpsLive reports the number of harness goroutines still running.
func (s *Sim) OpsLive() int64 { return s.opsLive.Load() }
