package verifsim

// DataCfg is a named client/server configuration used by data-phase scenarios.
type DataCfg struct {
	Name string
	C, S EpSpec
}

func pskPair(suite uint16) (EpSpec, EpSpec) {
	e := EpSpec{MinVer: 12, MaxVer: 12, Suites: []uint16{suite}, PSK: "verif-psk-0123456789", PSKHint: "hint", CIDLen: -1, SkipHelloVerify: true}

	return e, e
}

func certPair12(suite uint16, serverCert string) (EpSpec, EpSpec) {
	c := EpSpec{MinVer: 12, MaxVer: 12, Suites: []uint16{suite}, VerifyPeer: true, UseRoots: 1, ServerName: ServerName, CIDLen: -1}
	s := EpSpec{MinVer: 12, MaxVer: 12, Suites: []uint16{suite}, Cert: serverCert, CIDLen: -1, SkipHelloVerify: true}

	return c, s
}

func pair13(suite uint16) (EpSpec, EpSpec) {
	c := EpSpec{MinVer: 13, MaxVer: 13, Suites: []uint16{suite}, VerifyPeer: true, UseRoots: 1, ServerName: ServerName, CIDLen: -1}
	s := EpSpec{MinVer: 13, MaxVer: 13, Suites: []uint16{suite}, Cert: "srv-ecdsa", CIDLen: -1, SkipHelloVerify: true}

	return c, s
}

// DataCfgs lists the record-protection configurations (suite family x CID x version).
func DataCfgs() []DataCfg {
	var out []DataCfg
	add := func(name string, c, s EpSpec) { out = append(out, DataCfg{Name: name, C: c, S: s}) }
	c, s := pskPair(suitePSKGCM)
	add("12-psk-gcm", c, s)
	c, s = pskPair(suitePSKCCM8)
	add("12-psk-ccm8", c, s)
	c, s = pskPair(0xc0a4) // TLS_PSK_WITH_AES_128_CCM
	add("12-psk-ccm", c, s)
	c, s = pskPair(suitePSKCBC)
	add("12-psk-cbc256", c, s)
	c, s = pskPair(suitePSKChaCha)
	add("12-psk-chacha", c, s)
	c, s = certPair12(suiteECDSACBC, "srv-ecdsa")
	add("12-ecdsa-cbc", c, s)
	c, s = certPair12(suiteECDSAGCM384, "srv-ecdsa")
	add("12-ecdsa-gcm384", c, s)
	c, s = pskPair(suitePSKGCM)
	c.CIDLen, s.CIDLen, c.CIDTag, s.CIDTag = 4, 8, 3, 9
	add("12-psk-gcm-cid", c, s)
	c, s = pskPair(suitePSKCBC)
	c.CIDLen, s.CIDLen, c.CIDTag, s.CIDTag = 0, 5, 3, 9
	add("12-psk-cbc-cid-s", c, s)
	c, s = pskPair(suitePSKCCM8)
	c.CIDLen, s.CIDLen, c.CIDTag, s.CIDTag = 6, 0, 3, 9
	c.PadMode, s.PadMode = 2, 1
	add("12-psk-ccm8-cid-c-pad", c, s)
	c, s = pskPair(0xc0a4)
	c.CIDLen, s.CIDLen, c.CIDTag, s.CIDTag = 4, 4, 5, 6
	add("12-psk-ccm-cid4", c, s)
	c, s = pskPair(suitePSKCCM8)
	c.CIDLen, s.CIDLen, c.CIDTag, s.CIDTag = 1, 8, 5, 6
	add("12-psk-ccm8-cid1-8", c, s)
	c, s = pskPair(suitePSKChaCha)
	c.CIDLen, s.CIDLen, c.CIDTag, s.CIDTag = 16, 3, 5, 6
	c.PadMode = 1
	add("12-psk-chacha-cid16-3", c, s)
	c, s = certPair12(suiteECDSACBC, "srv-ecdsa")
	c.CIDLen, s.CIDLen, c.CIDTag, s.CIDTag = 2, 2, 5, 6
	add("12-ecdsa-cbc-sha1-cid", c, s)
	c, s = pair13(suite13AES128)
	add("13-aes128", c, s)
	c, s = pair13(suite13ChaCha)
	add("13-chacha", c, s)
	c, s = pair13(suite13AES256)
	c.CIDLen, s.CIDLen, c.CIDTag, s.CIDTag = 3, 7, 3, 9
	add("13-aes256-cid", c, s)

	return out
}

func dataCfgByName(name string) (DataCfg, bool) {
	for _, d := range DataCfgs() {
		if d.Name == name {
			return d, true
		}
	}

	return DataCfg{}, false
}
