package verifsim

import (
	"context"
	"crypto"
	"crypto/ecdsa"
	"crypto/ed25519"
	"crypto/elliptic"
	"crypto/rand"
	"crypto/rsa"
	"crypto/tls"
	"crypto/x509"
	"crypto/x509/pkix"
	"fmt"
	"math/big"
	mrand "math/rand/v2"
	"net"
	"strings"
	"time"

	dtls "github.com/pion/dtls/v3"
	dtlselliptic "github.com/pion/dtls/v3/pkg/crypto/elliptic"
	"github.com/pion/dtls/v3/pkg/protocol"
)

// ---- certificate pool (minted once per worker process, deterministic) ----------

type CertPool struct {
	CA, CA2    *x509.Certificate
	caKey      crypto.Signer
	ca2Key     crypto.Signer
	Roots      *x509.CertPool // contains CA
	Roots2     *x509.CertPool // contains CA2 (rogue)
	Leaf       map[string]tls.Certificate
	LeafParsed map[string]*x509.Certificate
}

const ServerName = "server.verif.test"

var certPool *CertPool

func mintCA(cn string, serial int64) (*x509.Certificate, crypto.Signer, error) {
	key, err := ecdsa.GenerateKey(elliptic.P256(), rand.Reader)
	if err != nil {
		return nil, nil, err
	}
	tmpl := &x509.Certificate{
		SerialNumber: big.NewInt(serial), Subject: pkix.Name{CommonName: cn},
		NotBefore: time.Date(1999, 1, 1, 0, 0, 0, 0, time.UTC), NotAfter: time.Date(2100, 1, 1, 0, 0, 0, 0, time.UTC),
		IsCA: true, BasicConstraintsValid: true, KeyUsage: x509.KeyUsageCertSign | x509.KeyUsageDigitalSignature,
	}
	der, err := x509.CreateCertificate(rand.Reader, tmpl, tmpl, key.Public(), key)
	if err != nil {
		return nil, nil, err
	}
	c, err := x509.ParseCertificate(der)

	return c, key, err
}

func mintLeaf(ca *x509.Certificate, caKey crypto.Signer, key crypto.Signer, cn string, dns []string, serial int64, nb, na time.Time) (tls.Certificate, *x509.Certificate, error) {
	var ips []net.IP
	var names []string
	for _, d := range dns { // names that parse as IP addresses become iPAddress SANs
		if ip := net.ParseIP(d); ip != nil {
			ips = append(ips, ip)
		} else {
			names = append(names, d)
		}
	}
	dns = names
	tmpl := &x509.Certificate{
		SerialNumber: big.NewInt(serial), Subject: pkix.Name{CommonName: cn}, DNSNames: dns, IPAddresses: ips,
		NotBefore: nb, NotAfter: na,
		KeyUsage:    x509.KeyUsageDigitalSignature | x509.KeyUsageKeyEncipherment,
		ExtKeyUsage: []x509.ExtKeyUsage{x509.ExtKeyUsageServerAuth, x509.ExtKeyUsageClientAuth},
	}
	switch { // leaves whose common name says so are good for one role only
	case strings.HasPrefix(cn, "serverauth-only."):
		tmpl.ExtKeyUsage = []x509.ExtKeyUsage{x509.ExtKeyUsageServerAuth}
	case strings.HasPrefix(cn, "clientauth-only."):
		tmpl.ExtKeyUsage = []x509.ExtKeyUsage{x509.ExtKeyUsageClientAuth}
	}
	der, err := x509.CreateCertificate(rand.Reader, tmpl, ca, key.Public(), caKey)
	if err != nil {
		return tls.Certificate{}, nil, err
	}
	parsed, err := x509.ParseCertificate(der)
	if err != nil {
		return tls.Certificate{}, nil, err
	}

	return tls.Certificate{Certificate: [][]byte{der, ca.Raw}, PrivateKey: key, Leaf: parsed}, parsed, nil
}

// CA2Key returns the rogue CA's private key (the rogue "owns" that certificate).
func (p *CertPool) CA2Key() crypto.Signer { return p.ca2Key }

// BuildCertPool must run under cryptotest.SetGlobalRandom so that every worker
// process mints byte-identical credentials.
func BuildCertPool() (*CertPool, error) {
	p := &CertPool{Leaf: map[string]tls.Certificate{}, LeafParsed: map[string]*x509.Certificate{}}
	var err error
	if p.CA, p.caKey, err = mintCA("verif CA", 1); err != nil {
		return nil, err
	}
	if p.CA2, p.ca2Key, err = mintCA("verif rogue CA", 2); err != nil {
		return nil, err
	}
	p.Roots = x509.NewCertPool()
	p.Roots.AddCert(p.CA)
	p.Roots2 = x509.NewCertPool()
	p.Roots2.AddCert(p.CA2)
	good0, good1 := time.Date(1999, 6, 1, 0, 0, 0, 0, time.UTC), time.Date(2090, 1, 1, 0, 0, 0, 0, time.UTC)
	type spec struct {
		name   string
		kind   string
		cn     string
		dns    []string
		rogue  bool
		nb, na time.Time
	}
	specs := []spec{
		{"srv-ecdsa", "p256", ServerName, []string{ServerName}, false, good0, good1},
		{"srv-ecdsa384", "p384", ServerName, []string{ServerName}, false, good0, good1},
		{"srv-ed25519", "ed25519", ServerName, []string{ServerName}, false, good0, good1},
		{"srv-rsa", "rsa", ServerName, []string{ServerName}, false, good0, good1},
		{"cli-ecdsa", "p256", "client.verif.test", []string{"client.verif.test"}, false, good0, good1},
		{"cli-ed25519", "ed25519", "client.verif.test", []string{"client.verif.test"}, false, good0, good1},
		{"cli-rsa", "rsa", "client.verif.test", []string{"client.verif.test"}, false, good0, good1},
		{"srv-rogue", "p256", ServerName, []string{ServerName}, true, good0, good1},
		{"cli-rogue", "p256", "client.verif.test", []string{"client.verif.test"}, true, good0, good1},
		{"srv-wrongname", "p256", "other.verif.test", []string{"other.verif.test"}, false, good0, good1},
		{"srv-expired", "p256", ServerName, []string{ServerName}, false, time.Date(1990, 1, 1, 0, 0, 0, 0, time.UTC), time.Date(1995, 1, 1, 0, 0, 0, 0, time.UTC)},
		{"srv-future", "p256", ServerName, []string{ServerName}, false, time.Date(2050, 1, 1, 0, 0, 0, 0, time.UTC), time.Date(2060, 1, 1, 0, 0, 0, 0, time.UTC)},
		{"cli-expired", "p256", "client.verif.test", []string{"client.verif.test"}, false, time.Date(1990, 1, 1, 0, 0, 0, 0, time.UTC), time.Date(1995, 1, 1, 0, 0, 0, 0, time.UTC)},
		// valid when a run starts (the bubble clock starts at 2000-01-01 00:00:00), expired ten virtual minutes later
		{"srv-short", "p256", ServerName, []string{ServerName}, false, good0, time.Date(2000, 1, 1, 0, 10, 0, 0, time.UTC)},
		// a certificate for the server's IP address (iPAddress SAN), and nothing else
		{"srv-ip", "p256", "10.0.0.2", []string{"10.0.0.2"}, false, good0, good1},
		// issued by the trusted CA, named correctly, but for the other role only
		{"cli-srvonly", "p256", "serverauth-only.client.verif.test", []string{"client.verif.test"}, false, good0, good1},
		{"srv-clionly", "p256", "clientauth-only.server.verif.test", []string{ServerName}, false, good0, good1},
		{"cli-short", "p256", "client.verif.test", []string{"client.verif.test"}, false, good0, time.Date(2000, 1, 1, 0, 10, 0, 0, time.UTC)},
	}
	for i, sp := range specs {
		var key crypto.Signer
		switch sp.kind {
		case "p256":
			key, err = ecdsa.GenerateKey(elliptic.P256(), rand.Reader)
		case "p384":
			key, err = ecdsa.GenerateKey(elliptic.P384(), rand.Reader)
		case "ed25519":
			_, key, err = ed25519.GenerateKey(rand.Reader)
		case "rsa":
			key, err = rsa.GenerateKey(rand.Reader, 2048)
		}
		if err != nil {
			return nil, err
		}
		ca, caKey := p.CA, p.caKey
		if sp.rogue {
			ca, caKey = p.CA2, p.ca2Key
		}
		cert, parsed, err := mintLeaf(ca, caKey, key, sp.cn, sp.dns, int64(100+i), sp.nb, sp.na)
		if err != nil {
			return nil, err
		}
		p.Leaf[sp.name] = cert
		p.LeafParsed[sp.name] = parsed
	}

	return p, nil
}

// ---- endpoint specification (serialisable) -------------------------------------

// EpSpec describes one endpoint's option set.
type EpSpec struct {
	MinVer          int      `json:"minver,omitempty"` // 12, 13 or 0 (library default)
	MaxVer          int      `json:"maxver,omitempty"`
	Suites          []uint16 `json:"suites,omitempty"`
	Cert            string   `json:"cert,omitempty"` // name in the pool
	PSK             string   `json:"psk,omitempty"`  // raw key bytes as string
	PSKHint         string   `json:"pskhint,omitempty"`
	ClientAuth      int      `json:"clientauth,omitempty"`
	VerifyPeer      bool     `json:"verify,omitempty"` // false => InsecureSkipVerify
	UseRoots        int      `json:"roots,omitempty"`  // 0 none, 1 CA, 2 rogue CA
	ServerName      string   `json:"sni,omitempty"`
	EMS             int      `json:"ems,omitempty"` // 0 request, 1 require, 2 disable
	MTU             int      `json:"mtu,omitempty"`
	FlightMs        int      `json:"flight_ms,omitempty"`
	NoBackoff       bool     `json:"nobackoff,omitempty"`
	ReplayWindow    int      `json:"window,omitempty"` // 0 = default
	SkipHelloVerify bool     `json:"skiphv,omitempty"`
	CIDLen          int      `json:"cidlen"` // <0: no generator
	CIDTag          byte     `json:"cidtag,omitempty"`
	SRTP            []uint16 `json:"srtp,omitempty"`
	MKI             string   `json:"mki,omitempty"`
	ALPN            []string `json:"alpn,omitempty"`
	Curves          []uint16 `json:"curves,omitempty"`
	SigSchemes      []uint16 `json:"sigschemes,omitempty"` // signature_algorithms this endpoint offers / accepts
	Store           string   `json:"store,omitempty"`
	PadMode         int      `json:"pad,omitempty"` // 0 none, 1 constant 7, 2 to multiple of 16
}

// Env carries the run-time objects a spec refers to by name.
type Env struct {
	Shared  map[string][]dtls.Option // role-independent options built per endpoint (ResumeWithOptions)
	Stores  map[string]dtls.SessionStore
	Extra   map[string][]dtls.Option // extra options by endpoint name (hooks etc.)
	Sim     *Sim
	KeyLogs map[string]*KeyLog // non-nil: every endpoint gets a key-log writer, stored here by name
	Loggers map[string]*simLoggerFactory
}

// FSMState returns the last "<flight>/<state>" the endpoint's handshake FSM traced.
func (e *Env) FSMState(name string) string {
	if e == nil || e.Loggers[name] == nil || e.Loggers[name].fsm == "" {
		return "no-fsm"
	}

	return e.Loggers[name].fsm
}

func ver(v int) protocol.Version {
	if v == 13 {
		return protocol.Version1_3
	}

	return protocol.Version1_2
}

// CIDOf returns the connection ID an endpoint with this spec generates.
func (e EpSpec) CIDOf() []byte {
	if e.CIDLen < 0 {
		return nil
	}
	b := make([]byte, e.CIDLen)
	for i := range b {
		b[i] = e.CIDTag + byte(i)*7 + 0x41
	}

	return b
}

// Options builds the library options for a spec.
func (e EpSpec) Options(server bool, env *Env, name string) (copts []dtls.ClientOption, sopts []dtls.ServerOption, err error) {
	var shared []dtls.Option
	add := func(o dtls.Option) { shared = append(shared, o) }
	if e.MinVer != 0 {
		add(dtls.WithMinVersion(ver(e.MinVer)))
	}
	if e.MaxVer != 0 {
		add(dtls.WithMaxVersion(ver(e.MaxVer)))
	}
	if len(e.Suites) > 0 {
		ids := make([]dtls.CipherSuiteID, len(e.Suites))
		for i, s := range e.Suites {
			ids[i] = dtls.CipherSuiteID(s)
		}
		add(dtls.WithCipherSuites(ids...))
	}
	if e.Cert != "" {
		c, ok := certPool.Leaf[e.Cert]
		if !ok {
			return nil, nil, fmt.Errorf("unknown cert %q", e.Cert)
		}
		add(dtls.WithCertificates(c))
	}
	if e.PSK != "" {
		key := []byte(e.PSK)
		add(dtls.WithPSK(func([]byte) ([]byte, error) { return key, nil }))
		add(dtls.WithPSKIdentityHint([]byte(e.PSKHint)))
	}
	add(dtls.WithInsecureSkipVerify(!e.VerifyPeer))
	switch e.UseRoots {
	case 1:
		if server {
			sopts = append(sopts, dtls.WithClientCAs(certPool.Roots))
		} else {
			add(dtls.WithRootCAs(certPool.Roots))
		}
	case 2:
		if server {
			sopts = append(sopts, dtls.WithClientCAs(certPool.Roots2))
		} else {
			add(dtls.WithRootCAs(certPool.Roots2))
		}
	}
	if e.ServerName != "" {
		add(dtls.WithServerName(e.ServerName))
	}
	switch e.EMS {
	case 1:
		add(dtls.WithExtendedMasterSecret(dtls.RequireExtendedMasterSecret))
	case 2:
		add(dtls.WithExtendedMasterSecret(dtls.DisableExtendedMasterSecret))
	}
	if e.MTU > 0 {
		add(dtls.WithMTU(e.MTU))
	}
	if e.FlightMs > 0 {
		add(dtls.WithFlightInterval(time.Duration(e.FlightMs) * time.Millisecond))
	}
	if e.NoBackoff {
		add(dtls.WithDisableRetransmitBackoff(true))
	}
	if e.ReplayWindow > 0 {
		add(dtls.WithReplayProtectionWindow(e.ReplayWindow))
	} else if e.ReplayWindow == -1 {
		add(dtls.WithReplayProtectionWindow(0)) // the option given explicitly with its zero value: the default window
	}
	if e.CIDLen >= 0 {
		cid := e.CIDOf()
		add(dtls.WithConnectionIDGenerator(func() []byte { return append([]byte(nil), cid...) }))
	}
	if len(e.SRTP) > 0 {
		ps := make([]dtls.SRTPProtectionProfile, len(e.SRTP))
		for i, s := range e.SRTP {
			ps[i] = dtls.SRTPProtectionProfile(s)
		}
		add(dtls.WithSRTPProtectionProfiles(ps...))
		if e.MKI != "" {
			add(dtls.WithSRTPMasterKeyIdentifier([]byte(e.MKI)))
		}
	}
	if len(e.ALPN) > 0 {
		add(dtls.WithSupportedProtocols(e.ALPN...))
	}
	if len(e.SigSchemes) > 0 {
		ss := make([]tls.SignatureScheme, len(e.SigSchemes))
		for i, x := range e.SigSchemes {
			ss[i] = tls.SignatureScheme(x)
		}
		add(dtls.WithSignatureSchemes(ss...))
	}
	if len(e.Curves) > 0 {
		cs := make([]dtlselliptic.Curve, len(e.Curves))
		for i, c := range e.Curves {
			cs[i] = dtlselliptic.Curve(c)
		}
		add(dtls.WithEllipticCurves(cs...))
	}
	if e.Store != "" && env != nil {
		if st, ok := env.Stores[e.Store]; ok {
			add(dtls.WithSessionStore(st))
		}
	}
	switch e.PadMode {
	case 1:
		add(dtls.WithPaddingLengthGenerator(func(uint) uint { return 7 }))
	case 2:
		add(dtls.WithPaddingLengthGenerator(func(n uint) uint { return (16 - n%16) % 16 }))
	}
	if env != nil && env.KeyLogs != nil {
		kl := &KeyLog{}
		env.KeyLogs[name] = kl
		add(dtls.WithKeyLogWriter(kl))
	}
	if env != nil {
		shared = append(shared, env.Extra[name]...)
		if env.Sim != nil {
			lf := &simLoggerFactory{s: env.Sim, name: name}
			if env.Loggers == nil {
				env.Loggers = map[string]*simLoggerFactory{}
			}
			env.Loggers[name] = lf
			add(dtls.WithLoggerFactory(lf))
		}
	}
	for _, o := range shared {
		copts = append(copts, o)
		sopts = append(sopts, o)
	}
	if env != nil {
		if env.Shared == nil {
			env.Shared = map[string][]dtls.Option{}
		}
		env.Shared[name] = shared
	}
	if server {
		sopts = append(sopts, dtls.WithClientAuth(dtls.ClientAuthType(e.ClientAuth)))
		if e.SkipHelloVerify {
			sopts = append(sopts, dtls.WithInsecureSkipVerifyHello(true))
		}
	}

	return copts, sopts, nil
}

// ---- a client/server pair on a SimNet --------------------------------------------

type HsResult struct {
	Done bool
	Err  error
	At   time.Duration
	Seq  uint64
}

type Pair struct {
	// OnHsDone, if set, runs on the handshake goroutine of an endpoint right after its
	// HandshakeContext returned (what an application does first with a fresh connection)
	OnHsDone func(ep string, err error)
	// Early are payloads written from OnHsDone, possibly while the peer is still handshaking and
	// faults still flow: they may be lost, never altered or duplicated
	Early    map[string]bool
	S        *Sim
	Net      *SimNet
	CSpec    EpSpec
	SSpec    EpSpec
	CSock    *SimPacketConn
	SSock    *SimPacketConn
	CAddr    net.Addr
	SAddr    net.Addr
	Client   *dtls.Conn
	Server   *dtls.Conn
	CHs, SHs HsResult
	cancel   []context.CancelFunc
	// CancelOnReturn: each side cancels the context it passed to HandshakeContext as soon as that
	// call has returned (the usual `defer cancel()`): the connection must keep working - also keep
	// answering the peer's retransmissions - without it
	CancelOnReturn bool
	ccancel        context.CancelFunc
	CName          string
	SName          string
	Env            *Env
}

// NewPair creates sockets and both Conns (no handshake yet).
func NewPair(s *Sim, n *SimNet, cs, ss EpSpec, env *Env) (*Pair, error) {
	return NewPairNamed(s, n, cs, ss, env, "c", "s")
}

// NewPairNamed is NewPair with explicit endpoint names.
func NewPairNamed(s *Sim, n *SimNet, cs, ss EpSpec, env *Env, cname, sname string) (*Pair, error) {
	if env == nil {
		env = &Env{}
	}
	env.Sim = s
	// the emission budget is a storm detector, not a cost model: a flight costs ~1/MTU datagrams
	// (a DTLS 1.3 hello with a hybrid key share alone is 25 datagrams at MTU 64), so it scales
	for _, m := range []int{cs.MTU, ss.MTU} {
		if m > 0 && m < 1200 && s.MaxEmits > 0 && s.MaxEmits < 2500*1500/m {
			s.MaxEmits = 2500 * 1500 / m
		}
		if f := int64(min(10, 1500/max(m, 1))); m > 0 && m < 1200 && s.MaxSteps > 0 && s.MaxSteps < 120_000*f {
			s.MaxSteps = 120_000 * f
		}
	}
	p := &Pair{S: s, Net: n, CSpec: cs, SSpec: ss, CAddr: Addr(1, 5000), SAddr: Addr(2, 4444), CName: cname, SName: sname, Env: env}
	p.CSock = n.NewConn(cname, p.CAddr)
	p.SSock = n.NewConn(sname, p.SAddr)
	copts, _, err := cs.Options(false, env, cname)
	if err != nil {
		return nil, err
	}
	_, sopts, err := ss.Options(true, env, sname)
	if err != nil {
		return nil, err
	}
	if p.Client, err = dtls.ClientWithOptions(p.CSock, p.SAddr, copts...); err != nil {
		return nil, fmt.Errorf("client config: %w", err)
	}
	if p.Server, err = dtls.ServerWithOptions(p.SSock, p.CAddr, sopts...); err != nil {
		return nil, fmt.Errorf("server config: %w", err)
	}

	return p, nil
}

// StartHandshakes launches HandshakeContext on both sides; timeout 0 = no deadline.
func (p *Pair) StartHandshakes(timeout time.Duration) {
	mk := func() (context.Context, context.CancelFunc) {
		if timeout <= 0 {
			ctx, cancel := context.WithCancel(context.Background())
			p.cancel = append(p.cancel, cancel)

			return ctx, cancel
		}
		ctx, cancel := context.WithTimeout(context.Background(), p.S.Uniq(timeout))
		p.cancel = append(p.cancel, cancel)

		return ctx, cancel
	}
	cctx, ccancel := mk()
	sctx, scancel := mk()
	p.ccancel = ccancel
	// The two endpoints must not arm their first retransmission timers at the
	// same virtual instant: the order in which the runtime fires timers that
	// tie depends on process history, which would break exact replay.
	off := p.S.Ch.Draw("start", func(r *mrand.Rand) Dec { return Dec{C: 1 + r.Int64N(999_983)} })
	p.S.After(time.Duration(off.C)*time.Nanosecond, func() { p.startClientHandshake(cctx) })
	p.S.Go(p.SName+"-handshake", func() {
		p.S.Record("op-call", p.SName, "HandshakeContext", nil)
		err := p.Server.HandshakeContext(sctx)
		if p.CancelOnReturn {
			scancel()
		}
		seq := p.S.Record("op-ret", p.SName, fmt.Sprintf("HandshakeContext err=%v", err), nil)
		p.SHs = HsResult{Done: true, Err: err, At: p.S.Now(), Seq: seq}
		if p.OnHsDone != nil {
			p.OnHsDone(p.SName, err)
		}
	})
}

func (p *Pair) startClientHandshake(cctx context.Context) {
	p.S.Go("c-handshake", func() {
		p.S.Record("op-call", p.CName, "HandshakeContext", nil)
		err := p.Client.HandshakeContext(cctx)
		if p.CancelOnReturn && p.ccancel != nil {
			p.ccancel()
		}
		seq := p.S.Record("op-ret", p.CName, fmt.Sprintf("HandshakeContext err=%v", err), nil)
		p.CHs = HsResult{Done: true, Err: err, At: p.S.Now(), Seq: seq}
		if p.OnHsDone != nil {
			p.OnHsDone(p.CName, err)
		}
	})
}

func (p *Pair) BothDone() bool { return p.CHs.Done && p.SHs.Done }
func (p *Pair) BothOK() bool   { return p.BothDone() && p.CHs.Err == nil && p.SHs.Err == nil }

// Teardown closes both Conns and all sockets and waits for harness goroutines.
func (p *Pair) Teardown() {
	for _, c := range p.cancel {
		c()
	}
	was := p.S.Policy.Active
	p.S.Policy.Active = false
	p.S.Go("c-close", func() { _ = p.Client.Close() })
	p.S.Go("s-close", func() { _ = p.Server.Close() })
	p.S.Drain(func() bool { return p.S.OpsLive() == 0 }, 10*time.Second)
	p.Net.CloseAll()
	p.S.Drain(func() bool { return p.S.OpsLive() == 0 }, 10*time.Second)
	p.S.Policy.Active = was
}
