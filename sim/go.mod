module github.com/pion/dtls/v3/verifsim

go 1.26.8

require (
	github.com/pion/dtls/v3 v3.0.0
	github.com/pion/logging v0.2.4
	github.com/pion/transport/v4 v4.1.0
	golang.org/x/crypto v0.48.0
)

require golang.org/x/sys v0.41.0 // indirect

replace github.com/pion/dtls/v3 => /repo
