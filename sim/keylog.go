package verifsim

import (
	"encoding/hex"
	"strings"
	"sync"
)

// KeyLog collects NSS key-log lines written through WithKeyLogWriter.
type KeyLog struct {
	mu    sync.Mutex
	Lines []string
}

func (k *KeyLog) Write(p []byte) (int, error) {
	k.mu.Lock()
	defer k.mu.Unlock()
	for _, l := range strings.Split(strings.TrimSpace(string(p)), "\n") {
		if l != "" {
			k.Lines = append(k.Lines, l)
		}
	}

	return len(p), nil
}

// Master returns the master secrets logged for a client random (in log order).
func (k *KeyLog) Master(clientRandom []byte) [][]byte {
	k.mu.Lock()
	defer k.mu.Unlock()
	want := hex.EncodeToString(clientRandom)
	var out [][]byte
	for _, l := range k.Lines {
		f := strings.Fields(l)
		if len(f) == 3 && f[0] == "CLIENT_RANDOM" && f[1] == want {
			if b, err := hex.DecodeString(f[2]); err == nil {
				out = append(out, b)
			}
		}
	}

	return out
}
