package verifsim

import (
	"fmt"
	"os"

	"github.com/pion/logging"
)

// LibLog routes the library's own log lines into the run's event log
// (SIM_LIBLOG=1). Off by default: formatting cost and noise.
var LibLog = os.Getenv("SIM_LIBLOG") != ""

type simLogger struct {
	s     *Sim
	scope string
	f     *simLoggerFactory
}

func (l *simLogger) rec(level, msg string) {
	if LibLog {
		l.s.Record("log", l.scope, level+" "+msg, nil)
	}
}

func (l *simLogger) Trace(msg string) { l.rec("TRACE", msg) }
func (l *simLogger) Tracef(f string, a ...interface{}) {
	// FSM state lines: "[handshake:%s] %s: %s" / "[handshake13:%s] %s: %s"
	if len(a) == 3 && (f == "[handshake:%s] %s: %s" || f == "[handshake13:%s] %s: %s") {
		l.f.fsm = fmt.Sprint(a[1]) + "/" + fmt.Sprint(a[2])
	}
	if LibLog {
		l.rec("TRACE", fmt.Sprintf(f, a...))
	}
}
func (l *simLogger) Debug(msg string) { l.rec("DEBUG", msg) }
func (l *simLogger) Debugf(f string, a ...interface{}) {
	if LibLog {
		l.rec("DEBUG", fmt.Sprintf(f, a...))
	}
}
func (l *simLogger) Info(msg string)                  { l.rec("INFO", msg) }
func (l *simLogger) Infof(f string, a ...interface{}) { l.rec("INFO", fmt.Sprintf(f, a...)) }
func (l *simLogger) Warn(msg string)                  { l.rec("WARN", msg) }
func (l *simLogger) Warnf(f string, a ...interface{}) { l.rec("WARN", fmt.Sprintf(f, a...)) }
func (l *simLogger) Error(msg string)                 { l.rec("ERROR", msg) }
func (l *simLogger) Errorf(f string, a ...interface{}) {
	if LibLog {
		l.rec("ERROR", fmt.Sprintf(f, a...))
	}
}

type simLoggerFactory struct {
	s    *Sim
	name string
	fsm  string // last FSM "<flight>/<state>" trace line of this endpoint
}

func (f *simLoggerFactory) NewLogger(scope string) logging.LeveledLogger {
	return &simLogger{s: f.s, scope: f.name + "/" + scope, f: f}
}
