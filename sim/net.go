package verifsim

import (
	"errors"
	"fmt"
	"math/rand/v2"
	"net"
	"os"
	"sync"
	"time"
)

// Net actions (Dec.A of a "net/<ep>" decision).
const (
	ActDeliver = 0
	ActDrop    = 1
	ActDup     = 2 // deliver twice (second copy after B ns extra)
	ActHold    = 3 // hold back: extra delay B ns (reorders with successors)
	ActCorrupt = 4 // flip bit C of the datagram, then deliver
	ActTrunc   = 5 // truncate to C bytes
	ActHoldN   = 6 // hold back until B later emissions of the same endpoint were sent (B=1: swap with successor)
)

var actNames = []string{"deliver", "drop", "dup", "hold", "corrupt", "trunc", "holdN"}

// NetRules describes the random fault mix of a run (part of the plan skeleton).
type NetRules struct {
	DropPm, DupPm, HoldPm, CorruptPm int // per-mille per datagram
	FaultsUntilIdx                   int // faults apply to emission indices < this (per endpoint); 0 = never
	FaultsUntilNs                    int64
	BaseLatencyNs                    int64
	JitterNs                         int64
	HoldMaxNs                        int64
	// Partitions are virtual-time windows [from,to) in which every datagram is dropped.
	Partitions [][2]int64
	// Mask[ep] lists explicit actions for the first datagrams emitted by ep
	// (enumerated fault masks); entries beyond it fall back to the rates.
	Mask map[string][]int
	// CutIdx[ep]: every datagram ep emits with index >= this value is dropped (a link that dies in
	// the middle of a flight: the receiver is left with a partially reassembled message)
	CutIdx map[string]int `json:",omitempty"`
}

type heldDatagram struct {
	left     int
	fromEp   string
	idx      int
	from, to net.Addr
	data     []byte
}

type datagram struct {
	from net.Addr
	data []byte
}

// Emission is everything an endpoint handed to its socket.
type Emission struct {
	Seq   uint64 // global event sequence number
	At    time.Duration
	Ep    string
	Idx   int
	To    string
	Data  []byte
	Act   int
	Extra int64
}

// Delivery is one datagram handed to an endpoint's socket queue.
type Delivery struct {
	Seq      uint64
	At       time.Duration
	Ep       string // receiver
	From     string
	Data     []byte
	EmitIdx  int // -1 for injected
	Injected bool
}

// SimNet owns all sockets of a run.
type SimNet struct {
	S       *Sim
	Rules   NetRules
	mu      sync.Mutex
	conns   map[string]*SimPacketConn // by address string
	all     []*SimPacketConn          // creation order
	lastDue map[string]time.Duration  // per link: latest scheduled in-order delivery time
	heldN   map[string][]*heldDatagram
	// LastFaultAt is the virtual time of the latest injected network fault.
	LastFaultAt time.Duration
	Emits       []Emission
	Deliv       []Delivery
	// OnEmit, if set, sees every emission synchronously (wire monitor).
	OnEmit func(e *Emission)
	// Rewrite, if set, may replace the datagram in transit (man in the middle); nil result = drop.
	Rewrite func(e *Emission) []byte
	// ReAddr, if set, may rewrite the source address seen by the receiver.
	ReAddr func(e *Emission) net.Addr
	// Capture: emissions of these endpoints are recorded in Captured and not delivered.
	Capture  map[string]bool
	Captured []Emission
	// OnDeliver, if set, is called on the controller just before a datagram is queued at its receiver.
	OnDeliver func(d *Delivery)
}

func NewSimNet(s *Sim, rules NetRules) *SimNet {
	if rules.BaseLatencyNs == 0 {
		rules.BaseLatencyNs = int64(5 * time.Millisecond)
	}
	if rules.JitterNs == 0 {
		rules.JitterNs = int64(time.Millisecond)
	}
	if rules.HoldMaxNs == 0 {
		rules.HoldMaxNs = int64(1500 * time.Millisecond)
	}

	n := &SimNet{S: s, Rules: rules, conns: map[string]*SimPacketConn{}, lastDue: map[string]time.Duration{}, heldN: map[string][]*heldDatagram{}}
	s.nets = append(s.nets, n)

	return n
}

// MakeReliable switches all faults off from now on (latency and FIFO order stay).
func (n *SimNet) MakeReliable() {
	n.Rules = NetRules{BaseLatencyNs: int64(5 * time.Millisecond), JitterNs: int64(time.Millisecond), HoldMaxNs: int64(time.Second)}
}

func Addr(host byte, port int) *net.UDPAddr {
	return &net.UDPAddr{IP: net.IPv4(10, 0, 0, host), Port: port}
}

// SimPacketConn is the net.PacketConn handed to the library.
type SimPacketConn struct {
	n      *SimNet
	name   string
	local  net.Addr
	mu     sync.Mutex
	queue  []datagram
	closed bool
	rdl    time.Time
	wake   chan struct{}
	emitN  int
	// Severed: socket of a crashed endpoint: nothing leaves, reads fail.
	severed bool
	// WriteErr, if set, is consulted per write (fault injection on the send path).
	WriteErr func(idx int) error
	QueueCap int
	Dropped  int
	stall    bool // the next WriteTo blocks (transient transport back-pressure) until released, deadline or close
	wdl      time.Time
	unstall  bool
}

// SetStall makes subsequent WriteTo calls block inside the transport.
func (c *SimPacketConn) SetStall(on bool) {
	c.mu.Lock()
	c.stall = on
	c.unstall = !on
	c.signalLocked()
	c.mu.Unlock()
}

func (n *SimNet) NewConn(name string, local net.Addr) *SimPacketConn {
	c := &SimPacketConn{n: n, name: name, local: local, wake: make(chan struct{}), QueueCap: 512}
	n.mu.Lock()
	n.conns[local.String()] = c
	n.all = append(n.all, c)
	n.mu.Unlock()

	return c
}

// Alias makes datagrams addressed to addr arrive at an existing socket (an
// endpoint reachable under a second address, e.g. after NAT rebinding).
func (n *SimNet) Alias(addr net.Addr, c *SimPacketConn) {
	n.mu.Lock()
	n.conns[addr.String()] = c
	n.mu.Unlock()
}

// Rebind makes a new socket inherit an address (restart after crash).
func (n *SimNet) Rebind(name string, local net.Addr) *SimPacketConn {
	return n.NewConn(name, local)
}

func (c *SimPacketConn) Name() string { return c.name }

type timeoutError struct{}

func (timeoutError) Error() string   { return "i/o timeout" }
func (timeoutError) Timeout() bool   { return true }
func (timeoutError) Temporary() bool { return true }
func (timeoutError) Unwrap() error   { return os.ErrDeadlineExceeded }

func (c *SimPacketConn) signalLocked() {
	close(c.wake)
	c.wake = make(chan struct{})
}

func (c *SimPacketConn) ReadFrom(p []byte) (int, net.Addr, error) {
	for {
		c.mu.Lock()
		if c.closed || c.severed {
			c.mu.Unlock()

			return 0, nil, net.ErrClosed
		}
		if !c.rdl.IsZero() && !time.Now().Before(c.rdl) {
			c.mu.Unlock()

			return 0, nil, timeoutError{}
		}
		if len(c.queue) > 0 {
			d := c.queue[0]
			c.queue = c.queue[1:]
			c.mu.Unlock()
			n := copy(p, d.data)

			return n, d.from, nil
		}
		w := c.wake
		var tc <-chan time.Time
		var tm *time.Timer
		if !c.rdl.IsZero() {
			tm = time.NewTimer(time.Until(c.rdl))
			tc = tm.C
		}
		c.mu.Unlock()
		select {
		case <-w:
		case <-tc:
		}
		if tm != nil {
			tm.Stop()
		}
	}
}

func (c *SimPacketConn) WriteTo(p []byte, addr net.Addr) (int, error) {
	c.mu.Lock()
	mine := c.stall // only one write is caught by the stall; later writes pass
	c.stall = false
	for mine && !c.unstall && !c.closed && !c.severed {
		if !c.wdl.IsZero() && !time.Now().Before(c.wdl) {
			c.mu.Unlock()

			return 0, timeoutError{}
		}
		w := c.wake
		c.mu.Unlock()
		c.n.S.Probe("write-stalled-in-transport")
		<-w
		c.mu.Lock()
	}
	if c.closed {
		c.mu.Unlock()

		return 0, net.ErrClosed
	}
	idx := c.emitN
	c.emitN++
	sev := c.severed
	we := c.WriteErr
	c.mu.Unlock()
	if sev {
		return 0, net.ErrClosed
	}
	if we != nil {
		if err := we(idx); err != nil {
			c.n.S.Fault("write-error")
			c.n.S.Record("write-error", c.name, fmt.Sprintf("idx=%d %v", idx, err), nil)

			return 0, err
		}
	}
	if addr == nil {
		return 0, errors.New("simnet: nil destination")
	}
	c.n.send(c, idx, append([]byte(nil), p...), addr)

	return len(p), nil
}

func (c *SimPacketConn) Close() error {
	c.mu.Lock()
	if c.closed {
		c.mu.Unlock()

		return nil
	}
	c.closed = true
	c.signalLocked()
	c.mu.Unlock()
	c.n.S.Record("sock-close", c.name, "", nil)

	return nil
}

// Sever models a crash: the process is gone, the socket is dead, nothing it
// still tries to send reaches the network.
func (c *SimPacketConn) Sever() {
	c.mu.Lock()
	c.severed = true
	c.signalLocked()
	c.mu.Unlock()
	c.n.S.Record("sever", c.name, "", nil)
}

func (c *SimPacketConn) LocalAddr() net.Addr { return c.local }

func (c *SimPacketConn) SetDeadline(t time.Time) error {
	_ = c.SetReadDeadline(t)

	return nil
}

func (c *SimPacketConn) SetReadDeadline(t time.Time) error {
	c.mu.Lock()
	c.rdl = t
	c.signalLocked()
	c.mu.Unlock()

	return nil
}

func (c *SimPacketConn) SetWriteDeadline(t time.Time) error {
	c.mu.Lock()
	c.wdl = t
	c.signalLocked()
	c.mu.Unlock()

	return nil
}

func (c *SimPacketConn) enqueue(d datagram) bool {
	c.mu.Lock()
	defer c.mu.Unlock()
	if c.closed || c.severed {
		return false
	}
	if len(c.queue) >= c.QueueCap {
		c.Dropped++

		return false
	}
	c.queue = append(c.queue, d)
	c.signalLocked()

	return true
}

func (c *SimPacketConn) EmitCount() int {
	c.mu.Lock()
	defer c.mu.Unlock()

	return c.emitN
}

func (n *SimNet) decide(c *SimPacketConn, idx int, size int) Dec {
	r := n.Rules
	now := int64(n.S.Now())
	for _, w := range r.Partitions {
		if now >= w[0] && now < w[1] {
			n.S.Fault("partition-drop")

			return Dec{A: ActDrop}
		}
	}
	if k, ok := r.CutIdx[c.name]; ok && idx >= k {
		n.S.Fault("cut-drop")

		return Dec{A: ActDrop}
	}
	if m, ok := r.Mask[c.name]; ok && idx < len(m) {
		d := Dec{A: int64(m[idx] & 0xff)}
		if d.A == ActHold || d.A == ActDup {
			d.B = r.HoldMaxNs
		}
		if d.A == ActHoldN {
			d.B = int64(m[idx] >> 8)
			if d.B == 0 {
				d.B = 1
			}
		}
		// explicit masks still get a recorded latency jitter through the chooser
		j := n.S.Ch.Draw("lat/"+c.name, func(rg *rand.Rand) Dec { return Dec{A: rg.Int64N(r.JitterNs + 1)} })
		d.C = j.A

		return d
	}
	faults := (r.FaultsUntilIdx > 0 && idx < r.FaultsUntilIdx) || (r.FaultsUntilNs > 0 && int64(n.S.Now()) < r.FaultsUntilNs)

	return n.S.Ch.Draw("net/"+c.name, func(rg *rand.Rand) Dec {
		d := Dec{C: rg.Int64N(r.JitterNs + 1)}
		if !faults {
			// C carries the jitter; keep A zero. To keep "default" = zero Dec for
			// shrinking, jitter is stored off by one so that 0 means "no entry".
			return d
		}
		x := rg.IntN(1000)
		switch {
		case x < r.DropPm:
			d.A = ActDrop
		case x < r.DropPm+r.DupPm:
			d.A = ActDup
			d.B = 1 + rg.Int64N(r.HoldMaxNs)
		case x < r.DropPm+r.DupPm+r.HoldPm:
			d.A = ActHold
			d.B = 1 + rg.Int64N(r.HoldMaxNs)
		case x < r.DropPm+r.DupPm+r.HoldPm+r.CorruptPm:
			d.A = ActCorrupt
			d.B = rg.Int64N(int64(size*8) + 1)
		}

		return d
	})
}

func (n *SimNet) send(c *SimPacketConn, idx int, data []byte, to net.Addr) {
	d := n.decide(c, idx, len(data))
	em := Emission{At: n.S.Now(), Ep: c.name, Idx: idx, To: to.String(), Data: data, Act: int(d.A), Extra: d.B}
	n.S.emits++
	if n.S.MaxEmits > 0 && n.S.emits > n.S.MaxEmits+400*int(n.S.Now()/time.Second) && !n.S.overrun {
		n.S.overrun = true
		n.S.mu.Lock()
		n.S.failed = append(n.S.failed, fmt.Sprintf("%d datagrams emitted by virtual t=%v: retransmission storm", n.S.emits, n.S.Now()))
		n.S.mu.Unlock()
		n.S.poke()
	}
	em.Seq = n.S.Record("emit", c.name, fmt.Sprintf("idx=%d len=%d to=%s act=%s %s", idx, len(data), to, actNames[d.A], DescribeDatagram(data)), data)
	n.mu.Lock()
	n.Emits = append(n.Emits, em)
	n.mu.Unlock()
	if n.OnEmit != nil {
		n.OnEmit(&em)
	}
	if n.Capture[c.name] {
		n.mu.Lock()
		n.Captured = append(n.Captured, em)
		n.mu.Unlock()

		return
	}
	payload := data
	if n.Rewrite != nil {
		payload = n.Rewrite(&em)
		if payload == nil {
			n.S.Fault("mitm-drop")

			return
		}
	}
	var from net.Addr = c.local
	if n.ReAddr != nil {
		if a := n.ReAddr(&em); a != nil {
			from = a
		}
	}
	lat := time.Duration(n.Rules.BaseLatencyNs + d.C)
	if d.A != ActDeliver {
		n.LastFaultAt = n.S.Now()
	}
	// release datagrams held back until "k later emissions"
	defer n.releaseHeld(c.name, lat)
	switch d.A {
	case ActDrop:
		if len(n.Rules.Partitions) == 0 && n.Rules.CutIdx == nil {
			n.S.Fault("drop")
		}

		return
	case ActHoldN:
		n.S.Fault("holdN")
		n.mu.Lock()
		n.heldN[c.name] = append(n.heldN[c.name], &heldDatagram{left: int(d.B) + 1, fromEp: c.name, idx: idx, from: from, to: to, data: payload})
		n.mu.Unlock()

		return
	case ActDup:
		n.S.Fault("dup")
		n.deliverAfter(lat, c.name, idx, from, to, payload)
		n.deliverAfter(lat+time.Duration(d.B), c.name, idx, from, to, payload)

		return
	case ActHold:
		n.S.Fault("hold")
		n.deliverAfter(lat+time.Duration(d.B), c.name, idx, from, to, payload)

		return
	case ActCorrupt:
		n.S.Fault("corrupt")
		cp := append([]byte(nil), payload...)
		if len(cp) > 0 {
			bit := int(d.B) % (len(cp) * 8)
			cp[bit/8] ^= 1 << (bit % 8)
		}
		n.deliverAfter(lat, c.name, idx, from, to, cp)

		return
	}
	n.deliverInOrder(lat, c.name, idx, from, to, payload)
}

// deliverInOrder schedules an unfaulted datagram so that it does not overtake
// earlier unfaulted datagrams of the same link (a reliable link is FIFO).
func (n *SimNet) deliverInOrder(lat time.Duration, fromEp string, idx int, from, to net.Addr, data []byte) {
	link := fromEp + ">" + to.String()
	due := n.S.Now() + lat
	n.mu.Lock()
	if last := n.lastDue[link]; due <= last {
		due = last + time.Microsecond
	}
	n.lastDue[link] = due
	n.mu.Unlock()
	n.deliverAfter(due-n.S.Now(), fromEp, idx, from, to, data)
}

func (n *SimNet) releaseHeld(ep string, lat time.Duration) {
	n.mu.Lock()
	var ready []*heldDatagram
	keep := n.heldN[ep][:0]
	for _, h := range n.heldN[ep] {
		h.left--
		if h.left <= 0 {
			ready = append(ready, h)
		} else {
			keep = append(keep, h)
		}
	}
	n.heldN[ep] = keep
	n.mu.Unlock()
	for i, h := range ready {
		n.LastFaultAt = n.S.Now()
		n.deliverAfter(lat+time.Duration(n.Rules.JitterNs)+time.Duration(i+1)*time.Millisecond, h.fromEp, h.idx, h.from, h.to, h.data)
	}
}

func (n *SimNet) deliverAfter(d time.Duration, fromEp string, emitIdx int, from, to net.Addr, data []byte) {
	n.S.After(d, func() { n.deliverNow(fromEp, emitIdx, from, to, data, false) })
}

func (n *SimNet) deliverNow(fromEp string, emitIdx int, from, to net.Addr, data []byte, injected bool) {
	n.mu.Lock()
	dst := n.conns[to.String()]
	n.mu.Unlock()
	if dst == nil {
		n.S.Record("undeliverable", fromEp, "to="+to.String(), nil)

		return
	}
	dl := Delivery{At: n.S.Now(), Ep: dst.name, From: from.String(), Data: data, EmitIdx: emitIdx, Injected: injected}
	kind := "deliver"
	if injected {
		kind = "inject"
	}
	if n.OnDeliver != nil {
		n.OnDeliver(&dl)
	}
	if !dst.enqueue(datagram{from: from, data: data}) {
		n.S.Record("deliver-lost", dst.name, fmt.Sprintf("from=%s idx=%d (socket closed or full)", fromEp, emitIdx), nil)

		return
	}
	dl.Seq = n.S.Record(kind, dst.name, fmt.Sprintf("from=%s(%s) idx=%d len=%d", fromEp, from, emitIdx, len(data)), nil)
	n.mu.Lock()
	n.Deliv = append(n.Deliv, dl)
	n.mu.Unlock()
}

// Inject schedules a datagram no endpoint sent.
func (n *SimNet) Inject(after time.Duration, from, to net.Addr, data []byte) {
	n.S.After(after, func() { n.deliverNow("adversary", -1, from, to, data, true) })
}

// InjectNow queues a datagram at once (controller context only).
func (n *SimNet) InjectNow(from, to net.Addr, data []byte) {
	n.deliverNow("adversary", -1, from, to, data, true)
}

func (n *SimNet) CloseAll() {
	n.mu.Lock()
	cs := append([]*SimPacketConn(nil), n.all...)
	n.mu.Unlock()
	for _, c := range cs {
		c.mu.Lock()
		if !c.closed {
			c.closed = true
			c.signalLocked()
		}
		c.mu.Unlock()
	}
}

// EmitsOf returns the emissions of one endpoint in order.
func (n *SimNet) EmitsOf(ep string) []Emission {
	n.mu.Lock()
	defer n.mu.Unlock()
	var out []Emission
	for _, e := range n.Emits {
		if e.Ep == ep {
			out = append(out, e)
		}
	}

	return out
}
