package verifsim

import (
	dtls "github.com/pion/dtls/v3"
)

// RecDecoder opens the protected records of an established session with refdtls: DTLS 1.2 keys
// derived from the key log and the hello randoms on the wire, DTLS 1.3 keys from the traffic
// secrets each sender holds. It is the harness's view of "authentic" and of what a record says.
type RecDecoder struct {
	ref12 *Ref12
	dec13 map[string]*Decoder13
	cid   map[string]int // CID length on records emitted by that endpoint
}

// NewRecDecoder needs env.KeyLogs for DTLS 1.2 sessions; it returns nil if the keys cannot be had.
func NewRecDecoder(pair *Pair, n *SimNet, cspec, sspec EpSpec) *RecDecoder {
	d := &RecDecoder{cid: map[string]int{"c": len(sspec.CIDOf()), "s": len(cspec.CIDOf())}}
	if cspec.CIDLen < 0 || sspec.CIDLen < 0 { // connection IDs are in use only if both sides offered the extension
		d.cid = map[string]int{"c": 0, "s": 0}
	}
	if cspec.MaxVer == 13 {
		cst, ok := pair.Client.ConnectionState()
		if !ok {
			return nil
		}
		cw, _ := dtls.VerifTrafficSecrets(pair.Client)
		sw, _ := dtls.VerifTrafficSecrets(pair.Server)
		d.dec13 = map[string]*Decoder13{"c": NewDecoder13(uint16(cst.CipherSuiteID), cw), "s": NewDecoder13(uint16(cst.CipherSuiteID), sw)}

		return d
	}
	col := NewHsCollector()
	for _, em := range n.Emits {
		col.Feed(em, d.cid[em.Ep])
	}
	chs, shs := col.Of(pair.CName, HTClientHello), col.Of(pair.SName, HTServerHello)
	if len(chs) == 0 || len(shs) == 0 || pair.Env.KeyLogs == nil || pair.Env.KeyLogs[pair.CName] == nil {
		return nil
	}
	ch, _ := ParseClientHello(chs[len(chs)-1].Body)
	sh, _ := ParseServerHello(shs[len(shs)-1].Body)
	ms := pair.Env.KeyLogs[pair.CName].Master(ch.Random)
	if len(ms) == 0 {
		return nil
	}
	ref, err := NewRef12(sh.Suites[0], ms[len(ms)-1], ch.Random, sh.Random)
	if err != nil {
		return nil
	}
	d.ref12 = ref

	return d
}

// Fork returns a decoder with its own DTLS 1.3 record-number reconstruction state.
func (d *RecDecoder) Fork() *RecDecoder {
	out := &RecDecoder{ref12: d.ref12, cid: d.cid}
	if d.dec13 != nil {
		out.dec13 = map[string]*Decoder13{}
		for ep, x := range d.dec13 {
			out.dec13[ep] = NewDecoder13(x.Suite, x.Secrets)
		}
	}

	return out
}

// DecRec is one protected record as refdtls sees it.
type DecRec struct {
	Epoch uint16
	Seq   uint64
	Type  byte
	Plain []byte
}

// OpenDatagram returns the records of a datagram sent by `from` ("c"/"s") that authenticate.
func (d *RecDecoder) OpenDatagram(from string, data []byte) []DecRec {
	recs, _ := ParseDatagram(data, d.cid[from])
	var out []DecRec
	for _, r := range recs {
		switch {
		case r.Unified:
			if d.dec13 == nil {
				continue
			}
			if e, ct, pl, sq, err := d.dec13[from].Open(r); err == nil {
				out = append(out, DecRec{Epoch: e, Seq: sq, Type: ct, Plain: pl})
			}
		case r.Epoch >= 1 && r.Type != CTChangeCipherSpec && d.ref12 != nil:
			if ct, pl, err := d.ref12.Open(from == "c", r); err == nil {
				out = append(out, DecRec{Epoch: r.Epoch, Seq: r.Seq, Type: ct, Plain: pl})
			}
		}
	}

	return out
}
