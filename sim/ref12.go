package verifsim

// refdtls, DTLS 1.2 half: an independent implementation of the RFC 5246 PRF and
// key schedule, RFC 5288/6655/7905 AEAD records, RFC 5246 CBC records and the
// RFC 9146 connection-ID variants. It shares no code with pion's crypto
// packages (stdlib + x/crypto primitives only) and is the oracle's decoder,
// the puppets' record layer and C10's reference.

import (
	"bytes"
	"crypto/aes"
	"crypto/cipher"
	"crypto/hmac"
	"crypto/sha1"
	"crypto/sha256"
	"crypto/sha512"
	"errors"
	"fmt"
	"hash"

	"golang.org/x/crypto/chacha20poly1305"
)

type suiteInfo struct {
	id      uint16
	kind    string // gcm | ccm | ccm8 | chacha | cbc
	keyLen  int
	ivLen   int // fixed IV part in the key block
	macLen  int // cbc only
	macHash func() hash.Hash
	prf     func() hash.Hash
}

var suites12 = map[uint16]suiteInfo{
	0xc02b: {0xc02b, "gcm", 16, 4, 0, nil, sha256.New},
	0xc02f: {0xc02f, "gcm", 16, 4, 0, nil, sha256.New},
	0x00a8: {0x00a8, "gcm", 16, 4, 0, nil, sha256.New},
	0xc02c: {0xc02c, "gcm", 32, 4, 0, nil, sha512.New384},
	0xc030: {0xc030, "gcm", 32, 4, 0, nil, sha512.New384},
	0xc0ac: {0xc0ac, "ccm", 16, 4, 0, nil, sha256.New},
	0xc0ae: {0xc0ae, "ccm8", 16, 4, 0, nil, sha256.New},
	0xc0a4: {0xc0a4, "ccm", 16, 4, 0, nil, sha256.New},
	0xc0a8: {0xc0a8, "ccm8", 16, 4, 0, nil, sha256.New},
	0xc0a9: {0xc0a9, "ccm8", 32, 4, 0, nil, sha256.New},
	0xcca9: {0xcca9, "chacha", 32, 12, 0, nil, sha256.New},
	0xcca8: {0xcca8, "chacha", 32, 12, 0, nil, sha256.New},
	0xccab: {0xccab, "chacha", 32, 12, 0, nil, sha256.New},
	0xc00a: {0xc00a, "cbc", 32, 16, 20, sha1.New, sha256.New},
	0xc014: {0xc014, "cbc", 32, 16, 20, sha1.New, sha256.New},
	0x00ae: {0x00ae, "cbc", 16, 16, 32, sha256.New, sha256.New},
	0xc037: {0xc037, "cbc", 16, 16, 32, sha256.New, sha256.New},
}

// PHash is P_hash of RFC 5246 section 5.
func PHash(h func() hash.Hash, secret, seed []byte, n int) []byte {
	mac := func(parts ...[]byte) []byte {
		m := hmac.New(h, secret)
		for _, p := range parts {
			m.Write(p)
		}

		return m.Sum(nil)
	}
	var out []byte
	a := mac(seed)
	for len(out) < n {
		out = append(out, mac(a, seed)...)
		a = mac(a)
	}

	return out[:n]
}

// PRF12 is PRF(secret, label, seed) of RFC 5246.
func PRF12(h func() hash.Hash, secret []byte, label string, seed []byte, n int) []byte {
	return PHash(h, secret, append([]byte(label), seed...), n)
}

type dirKeys struct {
	mac, key, iv []byte
}

// Ref12 holds the reference key material of one DTLS 1.2 session.
type Ref12 struct {
	Suite        suiteInfo
	Master       []byte
	ClientRandom []byte
	ServerRandom []byte
	client       dirKeys
	server       dirKeys
	// Explicit, if set, chooses the 8 explicit nonce bytes of GCM/CCM records (and seeds the CBC
	// IV) when sealing: RFC 5288 / 6655 leave them to the sender, epoch||sequence is only one
	// customary choice and a receiver has to use what the record carries
	Explicit func(epoch uint16, seq uint64) []byte
}

// NewRef12 derives the record keys from the master secret and the hello randoms.
func NewRef12(suite uint16, master, clientRandom, serverRandom []byte) (*Ref12, error) {
	si, ok := suites12[suite]
	if !ok {
		return nil, fmt.Errorf("refdtls: unknown DTLS 1.2 suite %#04x", suite)
	}
	r := &Ref12{Suite: si, Master: master, ClientRandom: clientRandom, ServerRandom: serverRandom}
	n := 2*si.macLen + 2*si.keyLen + 2*si.ivLen
	kb := PRF12(si.prf, master, "key expansion", append(append([]byte(nil), serverRandom...), clientRandom...), n)
	take := func(k int) []byte { v := kb[:k]; kb = kb[k:]; return v }
	r.client.mac, r.server.mac = take(si.macLen), take(si.macLen)
	r.client.key, r.server.key = take(si.keyLen), take(si.keyLen)
	r.client.iv, r.server.iv = take(si.ivLen), take(si.ivLen)

	return r, nil
}

// MasterSecret12 computes the (extended) master secret.
func MasterSecret12(h func() hash.Hash, pre, clientRandom, serverRandom, sessionHash []byte) []byte {
	if sessionHash != nil {
		return PRF12(h, pre, "extended master secret", sessionHash, 48)
	}

	return PRF12(h, pre, "master secret", append(append([]byte(nil), clientRandom...), serverRandom...), 48)
}

// VerifyData12 computes Finished.verify_data over a transcript hash.
func (r *Ref12) VerifyData12(client bool, transcript []byte) []byte {
	label := "server finished"
	if client {
		label = "client finished"
	}
	h := r.Suite.prf()
	h.Write(transcript)

	return PRF12(r.Suite.prf, r.Master, label, h.Sum(nil), 12)
}

// Exporter12 is the RFC 5705 exporter without context.
func (r *Ref12) Exporter12(label string, n int) []byte {
	return PRF12(r.Suite.prf, r.Master, label, append(append([]byte(nil), r.ClientRandom...), r.ServerRandom...), n)
}

func (r *Ref12) aead(k dirKeys) (cipher.AEAD, error) {
	switch r.Suite.kind {
	case "gcm":
		b, err := aes.NewCipher(k.key)
		if err != nil {
			return nil, err
		}

		return cipher.NewGCM(b)
	case "ccm":
		return newCCM(k.key, 16, 12)
	case "ccm8":
		return newCCM(k.key, 8, 12)
	case "chacha":
		return chacha20poly1305.New(k.key)
	}

	return nil, errors.New("refdtls: not an AEAD suite")
}

func seq8(epoch uint16, seq uint64) []byte {
	return []byte{byte(epoch >> 8), byte(epoch), byte(seq >> 40), byte(seq >> 32), byte(seq >> 24), byte(seq >> 16), byte(seq >> 8), byte(seq)}
}

// aad12 builds the additional data / MAC header of a record.
func aad12(r Rec, plainLen int) []byte {
	if r.Type == CTCID {
		// RFC 9146 section 5
		a := bytes.Repeat([]byte{0xff}, 8)
		a = append(a, CTCID, byte(len(r.CID)), CTCID, byte(r.Ver>>8), byte(r.Ver))
		a = append(a, seq8(r.Epoch, r.Seq)...)
		a = append(a, r.CID...)

		return append(a, byte(plainLen>>8), byte(plainLen))
	}
	a := seq8(r.Epoch, r.Seq)

	return append(a, r.Type, byte(r.Ver>>8), byte(r.Ver), byte(plainLen>>8), byte(plainLen))
}

// ErrRefAuth is returned when a record does not authenticate under the reference keys.
var ErrRefAuth = errors.New("refdtls: record does not authenticate")

// Open decrypts and authenticates one protected record (as parsed by the wire
// monitor). For tls12_cid records the inner plaintext is unwrapped: the
// returned type is the real content type.
func (r *Ref12) Open(fromClient bool, rec Rec) (ctype byte, plain []byte, err error) {
	k := r.server
	if fromClient {
		k = r.client
	}
	var inner []byte
	switch r.Suite.kind {
	case "gcm", "ccm", "ccm8":
		a, err := r.aead(k)
		if err != nil {
			return 0, nil, err
		}
		if len(rec.Body) < 8+a.Overhead() {
			return 0, nil, ErrRefAuth
		}
		nonce := append(append([]byte(nil), k.iv...), rec.Body[:8]...)
		ct := rec.Body[8:]
		inner, err = a.Open(nil, nonce, ct, aad12(rec, len(ct)-a.Overhead()))
		if err != nil {
			return 0, nil, ErrRefAuth
		}
	case "chacha":
		a, err := r.aead(k)
		if err != nil {
			return 0, nil, err
		}
		if len(rec.Body) < a.Overhead() {
			return 0, nil, ErrRefAuth
		}
		nonce := append([]byte(nil), k.iv...)
		for i, b := range seq8(rec.Epoch, rec.Seq) {
			nonce[4+i] ^= b
		}
		inner, err = a.Open(nil, nonce, rec.Body, aad12(rec, len(rec.Body)-a.Overhead()))
		if err != nil {
			return 0, nil, ErrRefAuth
		}
	case "cbc":
		bs := aes.BlockSize
		if len(rec.Body) < 2*bs || len(rec.Body)%bs != 0 {
			return 0, nil, ErrRefAuth
		}
		b, err := aes.NewCipher(k.key)
		if err != nil {
			return 0, nil, err
		}
		pt := make([]byte, len(rec.Body)-bs)
		cipher.NewCBCDecrypter(b, rec.Body[:bs]).CryptBlocks(pt, rec.Body[bs:])
		pad := int(pt[len(pt)-1])
		if pad+1+r.Suite.macLen > len(pt) {
			return 0, nil, ErrRefAuth
		}
		for _, x := range pt[len(pt)-1-pad:] {
			if int(x) != pad {
				return 0, nil, ErrRefAuth
			}
		}
		body := pt[:len(pt)-1-pad-r.Suite.macLen]
		mac := pt[len(body) : len(body)+r.Suite.macLen]
		m := hmac.New(r.Suite.macHash, k.mac)
		m.Write(aad12(rec, len(body)))
		m.Write(body)
		if !hmac.Equal(m.Sum(nil), mac) {
			return 0, nil, ErrRefAuth
		}
		inner = body
	}
	if rec.Type != CTCID {
		return rec.Type, inner, nil
	}
	// DTLSInnerPlaintext: content || real_type || zeros
	i := len(inner) - 1
	for i >= 0 && inner[i] == 0 {
		i--
	}
	if i < 0 {
		return 0, nil, fmt.Errorf("refdtls: inner plaintext without content type")
	}

	return inner[i], inner[:i], nil
}

// Seal protects one record. explicitNonce (8 bytes) is used by GCM/CCM, iv (16
// bytes) by CBC; both default to epoch||seq / a fixed pattern. For cid != nil
// the tls12_cid layout is produced with padZeros zero bytes appended.
func (r *Ref12) Seal(fromClient bool, ctype byte, epoch uint16, seq uint64, cid []byte, useCID bool, plain []byte, padZeros int) []byte {
	k := r.server
	if fromClient {
		k = r.client
	}
	outer := ctype
	inner := plain
	if useCID {
		outer = CTCID
		inner = append(append(append([]byte(nil), plain...), ctype), make([]byte, padZeros)...)
	}
	rec := Rec{Type: outer, Ver: 0xfefd, Epoch: epoch, Seq: seq, CID: cid}
	var body []byte
	switch r.Suite.kind {
	case "gcm", "ccm", "ccm8":
		a, _ := r.aead(k)
		explicit := seq8(epoch, seq)
		if r.Explicit != nil {
			explicit = r.Explicit(epoch, seq)
		}
		nonce := append(append([]byte(nil), k.iv...), explicit...)
		body = append(explicit, a.Seal(nil, nonce, inner, aad12(rec, len(inner)))...)
	case "chacha":
		a, _ := r.aead(k)
		nonce := append([]byte(nil), k.iv...)
		for i, b := range seq8(epoch, seq) {
			nonce[4+i] ^= b
		}
		body = a.Seal(nil, nonce, inner, aad12(rec, len(inner)))
	case "cbc":
		m := hmac.New(r.Suite.macHash, k.mac)
		m.Write(aad12(rec, len(inner)))
		m.Write(inner)
		pt := append(append([]byte(nil), inner...), m.Sum(nil)...)
		pad := aes.BlockSize - (len(pt)+1)%aes.BlockSize
		if pad == aes.BlockSize {
			pad = 0
		}
		for i := 0; i <= pad; i++ {
			pt = append(pt, byte(pad))
		}
		iv := bytes.Repeat([]byte{0xa5}, aes.BlockSize)
		copy(iv, seq8(epoch, seq))
		if r.Explicit != nil {
			copy(iv[8:], r.Explicit(epoch, seq))
		}
		b, _ := aes.NewCipher(k.key)
		ct := make([]byte, len(pt))
		cipher.NewCBCEncrypter(b, iv).CryptBlocks(ct, pt)
		body = append(iv, ct...)
	}
	hdr := []byte{outer, 0xfe, 0xfd}
	hdr = append(hdr, seq8(epoch, seq)...)
	if useCID {
		hdr = append(hdr, cid...)
	}
	hdr = append(hdr, byte(len(body)>>8), byte(len(body)))

	return append(hdr, body...)
}
