package verifsim

// refdtls, DTLS 1.3 half (RFC 9147 / RFC 8446): HKDF-Expand-Label with the
// "dtls13" prefix, traffic keys, record nonce, record-number encryption, the
// unified header as additional data, and the "traffic upd" successor.

import (
	"bytes"
	"context"
	"crypto"
	"crypto/aes"
	"crypto/cipher"
	"crypto/hmac"
	"crypto/sha256"
	"crypto/sha512"
	"fmt"
	"hash"
	"time"

	dtls "github.com/pion/dtls/v3"
	"golang.org/x/crypto/chacha20"
	"golang.org/x/crypto/chacha20poly1305"
)

type suite13 struct {
	id     uint16
	h      func() hash.Hash
	hlen   int
	keyLen int
	chacha bool
}

var suites13ref = map[uint16]suite13{
	0x1301: {0x1301, sha256.New, 32, 16, false},
	0x1302: {0x1302, sha512.New384, 48, 32, false},
	0x1303: {0x1303, sha256.New, 32, 32, true},
}

// hkdfExpand is HKDF-Expand of RFC 5869.
func hkdfExpand(h func() hash.Hash, prk, info []byte, n int) []byte {
	var out, t []byte
	for i := byte(1); len(out) < n; i++ {
		m := hmac.New(h, prk)
		m.Write(t)
		m.Write(info)
		m.Write([]byte{i})
		t = m.Sum(nil)
		out = append(out, t...)
	}

	return out[:n]
}

// ExpandLabel13 is HKDF-Expand-Label with the DTLS 1.3 label prefix.
func ExpandLabel13(h func() hash.Hash, secret []byte, label string, context []byte, n int) []byte {
	full := "dtls13" + label
	info := []byte{byte(n >> 8), byte(n), byte(len(full))}
	info = append(info, full...)
	info = append(info, byte(len(context)))
	info = append(info, context...)

	return hkdfExpand(h, secret, info, n)
}

// Keys13 are the record-protection keys of one traffic secret.
type Keys13 struct {
	S      suite13
	Secret []byte
	Key    []byte
	IV     []byte
	SN     []byte
}

func NewKeys13(suite uint16, secret []byte) (*Keys13, error) {
	s, ok := suites13ref[suite]
	if !ok {
		return nil, fmt.Errorf("refdtls: unknown DTLS 1.3 suite %#04x", suite)
	}

	return &Keys13{S: s, Secret: secret,
		Key: ExpandLabel13(s.h, secret, "key", nil, s.keyLen),
		IV:  ExpandLabel13(s.h, secret, "iv", nil, 12),
		SN:  ExpandLabel13(s.h, secret, "sn", nil, s.keyLen)}, nil
}

// NextSecret13 is the RFC 8446 7.2 traffic-secret update.
func NextSecret13(suite uint16, secret []byte) []byte {
	s := suites13ref[suite]

	return ExpandLabel13(s.h, secret, "traffic upd", nil, s.hlen)
}

func (k *Keys13) aead() cipher.AEAD {
	if k.S.chacha {
		a, _ := chacha20poly1305.New(k.Key)

		return a
	}
	b, _ := aes.NewCipher(k.Key)
	a, _ := cipher.NewGCM(b)

	return a
}

// mask computes the record-number mask from the first 16 ciphertext bytes.
func (k *Keys13) mask(ct []byte) ([]byte, error) {
	if len(ct) < 16 {
		return nil, fmt.Errorf("refdtls: ciphertext shorter than 16 bytes")
	}
	if k.S.chacha {
		c, err := chacha20.NewUnauthenticatedCipher(k.SN, ct[4:16])
		if err != nil {
			return nil, err
		}
		c.SetCounter(uint32(ct[0]) | uint32(ct[1])<<8 | uint32(ct[2])<<16 | uint32(ct[3])<<24)
		m := make([]byte, 16)
		c.XORKeyStream(m, m)

		return m, nil
	}
	b, err := aes.NewCipher(k.SN)
	if err != nil {
		return nil, err
	}
	m := make([]byte, 16)
	b.Encrypt(m, ct[:16])

	return m, nil
}

// Open13 opens one unified-header record. expect is the receiver's estimate of
// the next sequence number (for reconstructing the truncated number).
func (k *Keys13) Open13(rec Rec, expect uint64) (ctype byte, plain []byte, seq uint64, err error) {
	m, err := k.mask(rec.Body)
	if err != nil {
		return 0, nil, 0, err
	}
	wire := rec.Raw[:rec.HdrLen]
	hdr := append([]byte(nil), wire...)
	seqOff := 1 + len(rec.CID)
	var low uint64
	for i := 0; i < rec.SeqLen; i++ {
		hdr[seqOff+i] ^= m[i]
		low = low<<8 | uint64(hdr[seqOff+i])
	}
	// reconstruct: the value closest to expect with these low bits
	bits := uint(8 * rec.SeqLen)
	window := uint64(1) << bits
	cand := (expect &^ (window - 1)) | low
	if cand+window/2 < expect {
		cand += window
	} else if cand > expect+window/2 && cand >= window {
		cand -= window
	}
	nonce := append([]byte(nil), k.IV...)
	for i := 0; i < 8; i++ {
		nonce[11-i] ^= byte(cand >> (8 * i))
	}
	inner, oerr := k.aead().Open(nil, nonce, rec.Body, hdr)
	if oerr != nil {
		return 0, nil, cand, ErrRefAuth
	}
	i := len(inner) - 1
	for i >= 0 && inner[i] == 0 {
		i--
	}
	if i < 0 {
		return 0, nil, cand, fmt.Errorf("refdtls: inner plaintext without content type")
	}

	return inner[i], inner[:i], cand, nil
}

// Seal13 produces a unified-header record (16-bit sequence number, length present).
func (k *Keys13) Seal13(epoch uint16, seq uint64, cid []byte, ctype byte, plain []byte, padZeros int) []byte {
	inner := append(append(append([]byte(nil), plain...), ctype), make([]byte, padZeros)...)
	first := byte(0x20 | 0x08 | 0x04 | byte(epoch&3))
	if len(cid) > 0 {
		first |= 0x10
	}
	hdr := []byte{first}
	hdr = append(hdr, cid...)
	hdr = append(hdr, byte(seq>>8), byte(seq))
	n := len(inner) + 16
	hdr = append(hdr, byte(n>>8), byte(n))
	nonce := append([]byte(nil), k.IV...)
	for i := 0; i < 8; i++ {
		nonce[11-i] ^= byte(seq >> (8 * i))
	}
	ct := k.aead().Seal(nil, nonce, inner, hdr)
	m, _ := k.mask(ct)
	out := append([]byte(nil), hdr...)
	out[1+len(cid)] ^= m[0]
	out[2+len(cid)] ^= m[1]

	return append(out, ct...)
}

// Decoder13 decodes one direction of a DTLS 1.3 session from the sender's write secrets.
type Decoder13 struct {
	Suite   uint16
	Secrets map[uint16][]byte
	keys    map[uint16]*Keys13
	next    map[uint16]uint64
}

func NewDecoder13(suite uint16, writeSecrets map[uint16][]byte) *Decoder13 {
	return &Decoder13{Suite: suite, Secrets: writeSecrets, keys: map[uint16]*Keys13{}, next: map[uint16]uint64{}}
}

// Open tries every retained epoch whose low two bits match.
func (d *Decoder13) Open(rec Rec) (epoch uint16, ctype byte, plain []byte, seq uint64, err error) {
	err = fmt.Errorf("refdtls: no traffic secret for an epoch with low bits %d", rec.Epoch)
	for e, sec := range d.Secrets {
		if e&3 != rec.Epoch {
			continue
		}
		k := d.keys[e]
		if k == nil {
			k, _ = NewKeys13(d.Suite, sec)
			d.keys[e] = k
		}
		if k == nil {
			continue
		}
		ct, pl, sq, oerr := k.Open13(rec, d.next[e])
		if oerr == nil {
			if sq >= d.next[e] {
				d.next[e] = sq + 1
			}

			return e, ct, pl, sq, nil
		}
		err = oerr
	}

	return 0, 0, nil, 0, err
}

// c10RefServer13 puts the real client in front of a complete, honest DTLS 1.3 server built on
// refdtls (own ECDHE, key schedule early -> handshake -> master secret, Finished, CertificateVerify
// with the pool's genuine server key, record protection): the handshake must complete and
// application data must pass both ways under the application traffic secrets both sides derive.
func c10RefServer13(rc *RunCtx, p *C10Params, cfg DataCfg) {
	s := rc.S
	rc.R.Class = cfg.Name + "/ref-server"
	n := NewSimNet(s, NetRules{})
	// in half of the runs the reference server asks for a client certificate and checks the
	// client's Certificate / CertificateVerify / Finished against its own computation
	// a third of the runs use the SHA-384 suite, half start with a HelloRetryRequest (cookie)
	if (len(p.Sizes)+2*p.Forge)%3 == 0 {
		cfg.C.Suites, cfg.S.Suites = []uint16{suite13AES256}, []uint16{suite13AES256}
		rc.R.Class += "+sha384"
	}
	retry := (len(p.Sizes)/2+p.Forge)%2 == 0
	if retry {
		rc.R.Class += "+hrr"
	}
	clientAuth := (p.Forge+len(p.Sizes))%2 == 0
	if clientAuth {
		cfg.C.Cert = []string{"cli-ecdsa", "cli-ed25519"}[len(p.Sizes)%2]
		rc.R.Class += "+clientauth"
	}
	pair, err := NewPair(s, n, cfg.C, cfg.S, nil)
	if err != nil {
		rc.Violate("harness", "config: %v", err)

		return
	}
	defer pair.Teardown()
	ref := NewRogue13(s, n, pair.SAddr, pair.CAddr)
	ref.RequestClientCert = clientAuth
	ref.Retry = retry
	leaf := certPool.Leaf["srv-ecdsa"]
	ref.Chain = leaf.Certificate
	ref.Signer, _ = leaf.PrivateKey.(crypto.Signer)
	var fromClient [][]byte
	n.Rewrite = func(em *Emission) []byte {
		if em.Ep == "c" {
			ref.OnClientDatagram(em)
			fromClient = append(fromClient, ref.OpenAppData(em.Data)...)
		}

		return nil // the real server of the pair never hears from the client
	}
	pair.StartHandshakes(30 * time.Second)
	s.Run(func() bool { return pair.CHs.Done }, time.Minute)
	if ref.Note != "" {
		rc.Note("ref-server", ref.Note)
		s.Probe("ref-server-gave-up")

		return
	}
	if !pair.CHs.Done || pair.CHs.Err != nil {
		rc.Violate("ref-server-rejected:13", "the client did not complete a handshake with the reference DTLS 1.3 server (genuine chain, CertificateVerify and Finished computed by refdtls): done=%v err=%v", pair.CHs.Done, pair.CHs.Err)

		return
	}
	s.Run(func() bool { return ref.ClientFinOK || ref.ClientFlightBad != "" }, 5*time.Second)
	switch {
	case ref.ClientFlightBad != "" && contains(ref.ClientFlightBad, "fragmented"):
		s.Probe("ref-server-client-flight-fragmented")
	case ref.ClientFlightBad != "":
		rc.Violate("ref-server-rejects-client-flight:13", "the reference DTLS 1.3 server (client certificate requested: %v) cannot accept the client's final flight: %s", clientAuth, ref.ClientFlightBad)

		return
	case !ref.ClientFinOK:
		rc.Violate("ref-server-rejects-client-flight:13", "the client reported success but the reference server never saw a Finished it could verify")

		return
	case clientAuth && !ref.ClientCertOK:
		rc.Violate("ref-server-rejects-client-flight:13", "a client certificate was requested and the client completed without a CertificateVerify the reference server could verify")

		return
	}
	if clientAuth {
		s.Probe("client-certificate-verify-checked-by-reference-server")
	}
	s.Probe("client-finished-checked-by-reference-server")
	if retry {
		s.Probe("handshake-with-reference-server-after-hello-retry-request")
	}
	if st, okst := pair.Client.ConnectionState(); okst {
		for li, label := range []string{"EXTRACTOR-dtls_srtp", "EXPERIMENTAL-verif"} {
			ln := []int{47, 1, 32, 33, 48, 49, 64, 97, 255}[(len(p.Sizes)+li*4+p.Forge)%9]
			got, eerr := st.ExportKeyingMaterial(label, nil, ln)
			if want := ref.Exporter(label, ln); eerr != nil || !bytes.Equal(got, want) {
				rc.Violate("exporter-differs:13", "ExportKeyingMaterial(%q, %d bytes) on the DTLS 1.3 client = %x (err %v); the RFC 8446 7.5 exporter over the reference server's exporter_master_secret gives %x", label, ln, got, eerr, want)

				return
			}
		}
		s.Probe("exporter13-equals-reference")
	}
	s.Probe("handshake-with-reference-server")
	rd := pair.StartReader("c")
	var toClient [][]byte
	for i, sz := range p.Sizes {
		if sz > 1100 {
			sz = 1100
		}
		pc := Payload("c", 2, i, sz)
		if werr := pair.WriteSync("c", pc, 10*time.Second); werr != nil {
			rc.Violate("ref-server-data:13", "client Write after the handshake with the reference server: %v", werr)

			return
		}
		ps := Payload("s", 2, i, sz)
		toClient = append(toClient, ps)
		ref.SendAppData(ps)
		s.Run(func() bool { return len(rd.Got) > i && len(fromClient) > i }, 5*time.Second)
		if len(fromClient) <= i || !bytes.Equal(fromClient[i], pc) {
			rc.Violate("ref-cannot-open:13:appdata", "the reference server cannot open the client's application record %d under the client application traffic secret it derived", i)

			return
		}
		if len(rd.Got) <= i || !bytes.Equal(rd.Got[i], ps) {
			rc.Violate("ref-sealed-rejected:13:appdata", "the client did not deliver application record %d sealed by the reference server under the server application traffic secret", i)

			return
		}
	}
	s.Probe("application-data-with-reference-server")
}

func c10Run13(rc *RunCtx, p *C10Params, cfg DataCfg) {
	s := rc.S
	if p.RefServer && len(cfg.C.CIDOf()) == 0 && len(cfg.S.CIDOf()) == 0 {
		c10RefServer13(rc, p, cfg)

		return
	}
	n := NewSimNet(s, p.Rules)
	pair, err := NewPair(s, n, cfg.C, cfg.S, nil)
	if err != nil {
		rc.Violate("harness", "config: %v", err)

		return
	}
	defer pair.Teardown()
	pair.StartHandshakes(0)
	if !s.Run(pair.BothDone, 10*time.Minute) || !pair.BothOK() {
		rc.Note("not-established", "")

		return
	}
	n.MakeReliable()
	rdC, rdS := pair.StartReader("c"), pair.StartReader("s")
	s.Run(func() bool { return false }, 3*time.Second)
	wrote := map[string][][]byte{}
	for i, sz := range p.Sizes {
		for _, ep := range []string{"c", "s"} {
			pl := Payload(ep, 1, i, sz)
			if err := pair.WriteSync(ep, pl, 10*time.Second); err != nil {
				rc.Violate("write-failed", "%s write of %d bytes: %v", ep, sz, err)

				return
			}
			wrote[ep] = append(wrote[ep], pl)
		}
	}
	s.Run(func() bool { return len(rdS.Got) >= len(p.Sizes) && len(rdC.Got) >= len(p.Sizes) }, 5*time.Second)
	// steer the session to later key generations: the successor secrets are part of what is decoded
	for round := 0; round < p.Forge%3; round++ {
		for _, ep := range []string{"c", "s"} {
			var done bool
			var uerr error
			conn := pair.ConnOf(ep)
			s.Go(ep+"-update", func() {
				ctx, cancel := context.WithTimeout(context.Background(), s.Uniq(time.Minute))
				uerr = conn.UpdateKeys(ctx, dtls.KeyUpdateOptions{RequestPeerUpdate: round%2 == 1})
				cancel()
				done = true
			})
			s.Run(func() bool { return done }, 2*time.Minute)
			if !done || uerr != nil {
				rc.Note("update-keys-failed", fmt.Sprint(uerr))

				return
			}
			pl := Payload(ep, 2, 100+round, 40+round)
			if err := pair.WriteSync(ep, pl, 10*time.Second); err != nil {
				rc.Violate("write-failed", "%s write after key update: %v", ep, err)

				return
			}
			wrote[ep] = append(wrote[ep], pl)
			s.Probe("key-update-before-decoding")
		}
	}
	s.Run(func() bool { return false }, time.Second)
	cst, _ := pair.Client.ConnectionState()
	suite := uint16(cst.CipherSuiteID)
	cw, cr := dtls.VerifTrafficSecrets(pair.Client)
	sw, sr := dtls.VerifTrafficSecrets(pair.Server)
	for e, sec := range cw {
		if o, ok := sr[e]; ok && !bytes.Equal(o, sec) {
			rc.Violate("secrets-differ", "client write secret and server read secret of epoch %d differ", e)

			return
		}
	}
	for e, sec := range sw {
		if o, ok := cr[e]; ok && !bytes.Equal(o, sec) {
			rc.Violate("secrets-differ", "server write secret and client read secret of epoch %d differ", e)

			return
		}
	}
	for name, secs := range map[string]map[uint16][]byte{"client": cw, "server": sw} {
		for e, sec := range secs {
			if nx, ok := secs[e+1]; ok && e >= 3 && !bytes.Equal(nx, NextSecret13(suite, sec)) {
				rc.Violate("successor-law", "%s write secret of epoch %d is not HKDF-Expand-Label(secret of epoch %d, \"traffic upd\", \"\", Hash.length)", name, e+1, e)

				return
			}
		}
	}
	dec := map[string]*Decoder13{"c": NewDecoder13(suite, cw), "s": NewDecoder13(suite, sw)}
	cidToS, cidToC := len(cfg.S.CIDOf()), len(cfg.C.CIDOf())
	idx := map[string]int{}
	highest := map[string]uint64{}
	highestTop := map[string]uint64{} // highest sequence number seen in the sender's newest epoch
	topEpoch := map[string]uint16{}
	opened := 0
	for _, em := range n.Emits {
		cid := cidToS
		if em.Ep == "s" {
			cid = cidToC
		}
		rs, perr := ParseDatagram(em.Data, cid)
		if perr != nil {
			rc.Violate("wire-parse", "datagram %s#%d: %v", em.Ep, em.Idx, perr)

			return
		}
		for _, r := range rs {
			if !r.Unified {
				continue
			}
			e, ct, plain, sq, oerr := dec[em.Ep].Open(r)
			if oerr != nil {
				if r.Epoch == 2 {
					continue // handshake-epoch secrets are dropped after establishment; not retained, not judged
				}
				rc.Violate(fmt.Sprintf("ref-cannot-open:%s:13", cfg.Name), "the reference decoder (suite %#04x, secrets from the accessor) cannot open a unified-header record (epoch bits %d, %d body bytes, CID %x) emitted by %s: %v", suite, r.Epoch, len(r.Body), r.CID, em.Ep, oerr)

				return
			}
			opened++
			if e >= 3 && sq > highest[em.Ep] {
				highest[em.Ep] = sq
			}
			if e > topEpoch[em.Ep] {
				topEpoch[em.Ep], highestTop[em.Ep] = e, sq
			} else if e == topEpoch[em.Ep] && sq > highestTop[em.Ep] {
				highestTop[em.Ep] = sq
			}
			if ct == CTAppData {
				k := idx[em.Ep]
				if k >= len(wrote[em.Ep]) || !bytes.Equal(plain, wrote[em.Ep][k]) {
					rc.Violate("ref-plaintext-differs", "record %d of %s decodes to %s", k, em.Ep, preview(plain))

					return
				}
				idx[em.Ep] = k + 1
			}
		}
	}
	if opened > 0 {
		s.Probe("records13-opened-by-reference")
	}
	if idx["c"] != len(wrote["c"]) || idx["s"] != len(wrote["s"]) {
		rc.Violate("ref-missed-payloads", "reference decoder recovered %d/%d client and %d/%d server payloads", idx["c"], len(wrote["c"]), idx["s"], len(wrote["s"]))

		return
	}
	// the library accepts what the reference model seals (application epoch 3)
	for k := 0; k < p.Forge; k++ {
		for _, from := range []string{"c", "s"} {
			secs, rd, cid := cw, rdS, cfg.S.CIDOf()
			fromAddr, toAddr := pair.CAddr, pair.SAddr
			if from == "s" {
				secs, rd, cid = sw, rdC, cfg.C.CIDOf()
				fromAddr, toAddr = pair.SAddr, pair.CAddr
			}
			top := uint16(3)
			for e := range secs {
				if e > top {
					top = e
				}
			}
			sec, ok := secs[top]
			if !ok {
				continue
			}
			keys, _ := NewKeys13(suite, sec)
			pl := Payload("ref-"+from, 7, k, p.Sizes[k%len(p.Sizes)])
			raw := keys.Seal13(top, highestTop[from]+uint64(5+k), cid, CTAppData, pl, k*2)
			before := len(rd.Got)
			n.InjectNow(fromAddr, toAddr, raw)
			s.Settle()
			if len(rd.Got) != before+1 || !bytes.Equal(rd.Got[before], pl) {
				rc.Violate(fmt.Sprintf("lib-rejects-reference-record:%s", cfg.Name), "a DTLS 1.3 record sealed by the reference model (suite %#04x, %d payload bytes, CID %x) was not delivered by Read", suite, len(pl), cid)

				return
			}
			s.Probe("reference-sealed-record13-accepted")
		}
	}
}
