package verifsim

import (
	"crypto/aes"
	"crypto/cipher"
	"crypto/subtle"
	"errors"
)

// AES-CCM (RFC 3610), written from the RFC; no code shared with pkg/crypto/ccm.

type ccm struct {
	b        cipher.Block
	tagLen   int
	nonceLen int
}

func newCCM(key []byte, tagLen, nonceLen int) (cipher.AEAD, error) {
	b, err := aes.NewCipher(key)
	if err != nil {
		return nil, err
	}

	return &ccm{b, tagLen, nonceLen}, nil
}

func (c *ccm) NonceSize() int { return c.nonceLen }
func (c *ccm) Overhead() int  { return c.tagLen }

func (c *ccm) mac(nonce, plain, aad []byte) []byte {
	L := 15 - c.nonceLen
	var b0 [16]byte
	flags := byte(8 * ((c.tagLen - 2) / 2))
	if len(aad) > 0 {
		flags |= 0x40
	}
	flags |= byte(L - 1)
	b0[0] = flags
	copy(b0[1:], nonce)
	n := len(plain)
	for i := 0; i < L; i++ {
		b0[15-i] = byte(n >> (8 * i))
	}
	var x [16]byte
	c.b.Encrypt(x[:], b0[:])
	absorb := func(data []byte) {
		for len(data) > 0 {
			var blk [16]byte
			k := copy(blk[:], data)
			data = data[k:]
			for i := range x {
				x[i] ^= blk[i]
			}
			c.b.Encrypt(x[:], x[:])
		}
	}
	if len(aad) > 0 {
		var hdr []byte
		switch {
		case len(aad) < 0xff00:
			hdr = []byte{byte(len(aad) >> 8), byte(len(aad))}
		default:
			hdr = []byte{0xff, 0xfe, byte(len(aad) >> 24), byte(len(aad) >> 16), byte(len(aad) >> 8), byte(len(aad))}
		}
		absorb(append(hdr, aad...))
	}
	absorb(plain)

	return x[:c.tagLen]
}

func (c *ccm) ctr(nonce []byte, i int) []byte {
	L := 15 - c.nonceLen
	var a [16]byte
	a[0] = byte(L - 1)
	copy(a[1:], nonce)
	for k := 0; k < L; k++ {
		a[15-k] = byte(i >> (8 * k))
	}
	var s [16]byte
	c.b.Encrypt(s[:], a[:])

	return s[:]
}

func (c *ccm) Seal(dst, nonce, plain, aad []byte) []byte {
	tag := c.mac(nonce, plain, aad)
	out := make([]byte, len(plain)+c.tagLen)
	for i := 0; i < len(plain); i += 16 {
		s := c.ctr(nonce, i/16+1)
		for k := 0; k < 16 && i+k < len(plain); k++ {
			out[i+k] = plain[i+k] ^ s[k]
		}
	}
	s0 := c.ctr(nonce, 0)
	for k := 0; k < c.tagLen; k++ {
		out[len(plain)+k] = tag[k] ^ s0[k]
	}

	return append(dst, out...)
}

func (c *ccm) Open(dst, nonce, ct, aad []byte) ([]byte, error) {
	if len(ct) < c.tagLen {
		return nil, errors.New("ccm: short ciphertext")
	}
	n := len(ct) - c.tagLen
	plain := make([]byte, n)
	for i := 0; i < n; i += 16 {
		s := c.ctr(nonce, i/16+1)
		for k := 0; k < 16 && i+k < n; k++ {
			plain[i+k] = ct[i+k] ^ s[k]
		}
	}
	s0 := c.ctr(nonce, 0)
	tag := make([]byte, c.tagLen)
	for k := 0; k < c.tagLen; k++ {
		tag[k] = ct[n+k] ^ s0[k]
	}
	if subtle.ConstantTimeCompare(tag, c.mac(nonce, plain, aad)) != 1 {
		return nil, errors.New("ccm: authentication failed")
	}

	return append(dst, plain...), nil
}
