package verifsim

import (
	"encoding/json"
	"math/rand/v2"
	"testing"
	"time"
)

// RunResult is what one simulated run reports.
type RunResult struct {
	Index     int               `json:"index"`
	Seed      uint64            `json:"seed"`
	Violation string            `json:"violation,omitempty"` // oracle message; empty = property held
	Signature string            `json:"signature,omitempty"` // coarse class of the violation
	Class     string            `json:"class,omitempty"`     // scenario-defined class of the run (variant etc.)
	NonTriv   bool              `json:"nontrivial"`
	TraceHash uint64            `json:"trace_hash"`
	SchedHash uint64            `json:"sched_hash"`
	SimNs     int64             `json:"sim_ns"`
	Steps     int64             `json:"steps"`
	Faults    map[string]int    `json:"faults,omitempty"`
	Probes    map[string]int    `json:"probes,omitempty"`
	Notes     map[string]string `json:"notes,omitempty"`
	Parks     int               `json:"parks,omitempty"`
	Contended int               `json:"contended,omitempty"`
	Leaked    bool              `json:"leaked,omitempty"`
	Panic     string            `json:"panic,omitempty"`
	Params    json.RawMessage   `json:"-"`
	Dec       map[string]Dec    `json:"-"`
	Trace     []string          `json:"-"`
}

// RunCtx is handed to a scenario's Run inside the bubble.
type RunCtx struct {
	T    *testing.T
	S    *Sim
	Tier string
	R    *RunResult
}

func (rc *RunCtx) Violate(sig, format string, args ...any) {
	if rc.R.Violation != "" {
		return
	}
	rc.R.Signature = sig
	rc.R.Violation = sprintf(format, args...)
}

func (rc *RunCtx) Note(k, v string) {
	if rc.R.Notes == nil {
		rc.R.Notes = map[string]string{}
	}
	rc.R.Notes[k] = v
}

// Scenario is one property's simulated check.
type Scenario struct {
	ID string
	// Counts returns (enumerated, sampled) run counts for a tier. Indices
	// [0,enumerated) are an exhaustive enumeration that always completes;
	// indices beyond are seeded samples, cut short by the wall budget.
	Counts func(tier string) (enum, sample int)
	// Gen builds the plan skeleton of run idx (a JSON-marshalable value).
	Gen func(r *rand.Rand, tier string, idx int) any
	// NewParams returns a pointer to a zero params value for unmarshalling.
	NewParams func() any
	// Run executes one run inside the bubble.
	Run func(rc *RunCtx, params any)
	// Shrink optionally proposes simpler params (each candidate is tried in turn).
	Shrink func(params any) []any
	// Budget is the wall-clock budget per tier in seconds.
	Budget func(tier string) time.Duration
	// BudgetIsVerdict: exhausting the step / emission / wall budget of a run (a livelock or an
	// emission storm) is a violation of this property. For the other properties the budgets are
	// resource guards only: such a run is abandoned without a verdict and counted
	// (probe "run-abandoned-at-budget"); storms are the business of C02, C08, C13, C16, C17.
	BudgetIsVerdict bool
	Describe        string
}

var registry = map[string]*Scenario{}

func Register(s *Scenario) { registry[s.ID] = s }
