package verifsim

// A scripted DTLS 1.3 server built only on refdtls (own key schedule, own
// record protection, own message encoding). It is a Byzantine peer for C03: it
// completes a handshake "otherwise correctly" while leaving out the messages
// that would authenticate it.

import (
	"bytes"
	"crypto"
	"crypto/ecdh"
	"crypto/ecdsa"
	"crypto/ed25519"
	"crypto/hmac"
	crand "crypto/rand"
	"crypto/sha256"
	"crypto/x509"
	"fmt"
	"hash"
	"net"
	"time"
)

func hkdfExtract(h func() hash.Hash, salt, ikm []byte) []byte {
	m := hmac.New(h, salt)
	m.Write(ikm)

	return m.Sum(nil)
}

func hashOf(h func() hash.Hash, parts ...[]byte) []byte {
	x := h()
	for _, p := range parts {
		x.Write(p)
	}

	return x.Sum(nil)
}

// Rogue13 is the scripted server.
type Rogue13 struct {
	S     *Sim
	N     *SimNet
	Self  net.Addr
	Peer  net.Addr
	Chain [][]byte // if set, a Certificate message with this chain is sent
	// Signer, if set together with Chain, makes this an honest server: CertificateVerify is signed
	// with it (ecdsa_secp256r1_sha256) over the RFC 8446 4.4.3 content
	Signer crypto.Signer

	col        *HsCollector
	suite      suite13
	transcript []byte // canonical (TLS 1.3 form) messages so far
	hsSecret   []byte
	cHS, sHS   []byte
	cAP, sAP   []byte
	expMaster  []byte // exporter_master_secret (RFC 8446 7.1: Derive-Secret(Master, "exp master", ClientHello..server Finished))
	sentFlight bool
	flight     [][]byte
	flightAt   time.Duration
	recSeq     uint64
	acked      map[uint64]bool
	ackSeq     uint64
	cAPNext    uint64
	Note       string
	ClientFin  bool
	// RequestClientCert: the (honest) reference server sends a CertificateRequest; the client's
	// Certificate, CertificateVerify and Finished are then checked against the reference formulas
	RequestClientCert bool
	// Retry: the reference server first answers with a HelloRetryRequest that carries a cookie
	// (RFC 8446 4.1.4 / RFC 9147 5.1) and continues with the second ClientHello; the transcript
	// then starts with the synthetic message_hash of the first ClientHello (RFC 8446 4.4.1)
	Retry     bool
	retrySent bool
	hrrPrefix []byte // message_hash(ClientHello1) || HelloRetryRequest, in transcript form
	seqOff    int    // 1 once a HelloRetryRequest has used message_seq 0 / record number 0
	// Verdict of the reference server on the client's final flight ("" = nothing wrong so far)
	ClientFlightBad string
	ClientFinOK     bool
	ClientCertOK    bool
	seenHs          map[uint16]bool
	clientLeaf      *x509.Certificate
}

func NewRogue13(s *Sim, n *SimNet, self, peer net.Addr) *Rogue13 {
	return &Rogue13{S: s, N: n, Self: self, Peer: peer, col: NewHsCollector(), acked: map[uint64]bool{}}
}

func canonical13(typ byte, body []byte) []byte {
	out := []byte{typ, byte(len(body) >> 16), byte(len(body) >> 8), byte(len(body))}

	return append(out, body...)
}

func dtlsHs(typ byte, msgSeq int, body []byte) []byte {
	h := make([]byte, 12)
	h[0] = typ
	putU24(h[1:], len(body))
	putU16(h[4:], msgSeq)
	putU24(h[6:], 0)
	putU24(h[9:], len(body))

	return append(h, body...)
}

func plaintextRecord(ctype byte, seq uint64, payload []byte) []byte {
	out := []byte{ctype, 0xfe, 0xfd, 0, 0, byte(seq >> 40), byte(seq >> 32), byte(seq >> 24), byte(seq >> 16), byte(seq >> 8), byte(seq), byte(len(payload) >> 8), byte(len(payload))}

	return append(out, payload...)
}

var rogueGroups = map[uint16]ecdh.Curve{0x001d: ecdh.X25519(), 0x0017: ecdh.P256(), 0x0018: ecdh.P384()}

// OnClientDatagram consumes one datagram the client emitted.
func (r *Rogue13) OnClientDatagram(em *Emission) {
	if !r.sentFlight {
		r.col.Feed(*em, 0)
		chs := r.col.Of(em.Ep, 1)
		if len(chs) == 0 {
			return
		}
		ch := chs[len(chs)-1]
		if r.Retry && !r.retrySent {
			if err := r.sendRetry(ch); err != nil {
				r.Note = err.Error()
			}

			return
		}
		if r.Retry {
			if ch.MsgSeq == 0 {
				return // the first ClientHello again; the second has not arrived yet
			}
			if hello, err := ParseClientHello(ch.Body); err != nil || !hasCookie13(hello, rogueCookie) {
				r.Note = "second ClientHello does not echo the cookie of the HelloRetryRequest"

				return
			}
		}
		if err := r.answerHello(ch); err != nil {
			r.Note = err.Error()
		}

		return
	}
	recs, _ := ParseDatagram(em.Data, 0)
	var numbers [][2]uint64
	for _, rec := range recs {
		if !rec.Unified {
			// a retransmitted ClientHello: our flight was lost
			if rec.Type == 22 {
				r.resend()
			}

			continue
		}
		if rec.Epoch != 2 || r.cHS == nil {
			continue
		}
		k, _ := NewKeys13(r.suite.id, r.cHS)
		ct, plain, seq, err := k.Open13(rec, 0)
		if err != nil {
			continue
		}
		if ct == 22 && len(plain) > 12 {
			r.checkClientMessage(plain)
		}
		if ct == 22 && len(plain) > 12 && plain[0] == 20 {
			r.ClientFin = true
		}
		if ct == 22 && len(plain) > 12 {
			if !r.acked[seq] {
				r.acked[seq] = true
			}
			numbers = append(numbers, [2]uint64{2, seq})
		}
	}
	if len(numbers) > 0 {
		body := []byte{byte(len(numbers) * 16 >> 8), byte(len(numbers) * 16)}
		for _, nn := range numbers {
			for k := 7; k >= 0; k-- {
				body = append(body, byte(nn[0]>>(8*k)))
			}
			for k := 7; k >= 0; k-- {
				body = append(body, byte(nn[1]>>(8*k)))
			}
		}
		keys, _ := NewKeys13(r.suite.id, r.sAP)
		r.N.Inject(time.Millisecond, r.Self, r.Peer, keys.Seal13(3, r.ackSeq, nil, CTACK, body, 0))
		r.ackSeq++
	}
}

func (r *Rogue13) resend() {
	if r.S.Now()-r.flightAt < 200*time.Millisecond {
		return
	}
	r.flightAt = r.S.Now()
	for _, d := range r.flight {
		r.N.Inject(time.Millisecond, r.Self, r.Peer, d)
	}
}

func (r *Rogue13) answerHello(ch *HsMsg) error {
	hello, err := ParseClientHello(ch.Body)
	if err != nil {
		return err
	}
	var ok bool
	for _, id := range hello.Suites {
		if r.suite, ok = suites13ref[id]; ok {
			break
		}
	}
	if !ok {
		return fmt.Errorf("rogue13: no DTLS 1.3 suite offered")
	}
	ks, has := hello.Ext(ExtKeyShare)
	if !has || len(ks) < 2 {
		return fmt.Errorf("rogue13: no key_share")
	}
	var group uint16
	var peerKey []byte
	rdr := &rd{b: ks[2:]}
	for len(rdr.b) >= 4 && !rdr.err {
		g := uint16(rdr.u16())
		k := rdr.vec16()
		if _, sup := rogueGroups[g]; sup && peerKey == nil {
			group, peerKey = g, k
		}
	}
	if peerKey == nil {
		return fmt.Errorf("rogue13: no supported key share")
	}
	curve := rogueGroups[group]
	seed := make([]byte, 48)
	for i := range seed {
		seed[i] = byte(0x31 + i)
	}
	var priv *ecdh.PrivateKey
	switch group {
	case 0x001d:
		priv, err = curve.NewPrivateKey(seed[:32])
	case 0x0017:
		priv, err = curve.NewPrivateKey(seed[:32])
	default:
		priv, err = curve.NewPrivateKey(seed[:48])
	}
	if err != nil {
		return err
	}
	pub, err := curve.NewPublicKey(peerKey)
	if err != nil {
		return err
	}
	shared, err := priv.ECDH(pub)
	if err != nil {
		return err
	}
	// ServerHello
	sh := []byte{0xfe, 0xfd}
	random := make([]byte, 32)
	for i := range random {
		random[i] = byte(0xa0 + i)
	}
	sh = append(sh, random...)
	sh = append(sh, byte(len(hello.SessionID)))
	sh = append(sh, hello.SessionID...)
	sh = append(sh, byte(r.suite.id>>8), byte(r.suite.id), 0)
	mine := priv.PublicKey().Bytes()
	exts := []byte{0, 43, 0, 2, 0xfe, 0xfc}
	exts = append(exts, 0, 51, byte((4+len(mine))>>8), byte(4+len(mine)), byte(group>>8), byte(group), byte(len(mine)>>8), byte(len(mine)))
	exts = append(exts, mine...)
	sh = append(sh, byte(len(exts)>>8), byte(len(exts)))
	sh = append(sh, exts...)

	h := r.suite.h
	zeros := make([]byte, r.suite.hlen)
	r.transcript = append(append(append([]byte(nil), r.hrrPrefix...), canonical13(1, ch.Body)...), canonical13(2, sh)...)
	early := hkdfExtract(h, zeros, zeros)
	d1 := ExpandLabel13(h, early, "derived", hashOf(h), r.suite.hlen)
	r.hsSecret = hkdfExtract(h, d1, shared)
	th := hashOf(h, r.transcript)
	r.cHS = ExpandLabel13(h, r.hsSecret, "c hs traffic", th, r.suite.hlen)
	r.sHS = ExpandLabel13(h, r.hsSecret, "s hs traffic", th, r.suite.hlen)

	ee := []byte{0, 0}
	r.transcript = append(r.transcript, canonical13(8, ee)...)
	var certReq []byte
	if r.RequestClientCert {
		// certificate_request_context = empty; extensions: signature_algorithms {ecdsa_secp256r1_sha256, ed25519}
		certReq = []byte{0, 0, 10, 0, 13, 0, 6, 0, 4, 0x04, 0x03, 0x08, 0x07}
		r.transcript = append(r.transcript, canonical13(13, certReq)...)
	}
	var cert []byte
	if len(r.Chain) > 0 {
		var list []byte
		for _, c := range r.Chain {
			list = append(list, byte(len(c)>>16), byte(len(c)>>8), byte(len(c)))
			list = append(list, c...)
			list = append(list, 0, 0)
		}
		cert = append([]byte{0, byte(len(list) >> 16), byte(len(list) >> 8), byte(len(list))}, list...)
		r.transcript = append(r.transcript, canonical13(11, cert)...)
	}
	var certVerify []byte
	if cert != nil && r.Signer != nil {
		content := append(bytes.Repeat([]byte{0x20}, 64), []byte("TLS 1.3, server CertificateVerify")...)
		content = append(content, 0)
		content = append(content, hashOf(h, r.transcript)...)
		digest := sha256.Sum256(content)
		sig, serr := r.Signer.Sign(crand.Reader, digest[:], crypto.SHA256)
		if serr != nil {
			return serr
		}
		certVerify = append([]byte{0x04, 0x03, byte(len(sig) >> 8), byte(len(sig))}, sig...)
		r.transcript = append(r.transcript, canonical13(15, certVerify)...)
	}
	fk := ExpandLabel13(h, r.sHS, "finished", nil, r.suite.hlen)
	mac := hmac.New(h, fk)
	mac.Write(hashOf(h, r.transcript))
	fin := mac.Sum(nil)
	r.transcript = append(r.transcript, canonical13(20, fin)...)

	d2 := ExpandLabel13(h, r.hsSecret, "derived", hashOf(h), r.suite.hlen)
	master := hkdfExtract(h, d2, zeros)
	th2 := hashOf(h, r.transcript)
	r.cAP = ExpandLabel13(h, master, "c ap traffic", th2, r.suite.hlen)
	r.sAP = ExpandLabel13(h, master, "s ap traffic", th2, r.suite.hlen)
	r.expMaster = ExpandLabel13(h, master, "exp master", th2, r.suite.hlen)

	keys, _ := NewKeys13(r.suite.id, r.sHS)
	d0 := plaintextRecord(22, uint64(r.seqOff), dtlsHs(2, r.seqOff, sh))
	d1rec := keys.Seal13(2, 0, nil, 22, dtlsHs(8, 1+r.seqOff, ee), 0)
	var d2rec []byte
	if certReq != nil && cert != nil && certVerify != nil {
		d2rec = append(keys.Seal13(2, 1, nil, 22, dtlsHs(13, 2+r.seqOff, certReq), 0), keys.Seal13(2, 2, nil, 22, dtlsHs(11, 3+r.seqOff, cert), 0)...)
		d2rec = append(d2rec, keys.Seal13(2, 3, nil, 22, dtlsHs(15, 4+r.seqOff, certVerify), 0)...)
		d2rec = append(d2rec, keys.Seal13(2, 4, nil, 22, dtlsHs(20, 5+r.seqOff, fin), 0)...)
	} else if cert != nil && certVerify != nil {
		d2rec = append(keys.Seal13(2, 1, nil, 22, dtlsHs(11, 2+r.seqOff, cert), 0), keys.Seal13(2, 2, nil, 22, dtlsHs(15, 3+r.seqOff, certVerify), 0)...)
		d2rec = append(d2rec, keys.Seal13(2, 3, nil, 22, dtlsHs(20, 4+r.seqOff, fin), 0)...)
	} else if cert != nil {
		d2rec = append(keys.Seal13(2, 1, nil, 22, dtlsHs(11, 2+r.seqOff, cert), 0), keys.Seal13(2, 2, nil, 22, dtlsHs(20, 3+r.seqOff, fin), 0)...)
	} else {
		d2rec = keys.Seal13(2, 1, nil, 22, dtlsHs(20, 2+r.seqOff, fin), 0)
	}
	r.flight = [][]byte{d0, append(d1rec, d2rec...)}
	r.sentFlight = true
	r.flightAt = r.S.Now()
	for _, d := range r.flight {
		r.N.Inject(time.Millisecond, r.Self, r.Peer, d)
	}
	r.S.Fault("rogue13-flight-without-proof")

	return nil
}

// SendAppData seals one application record under the server application traffic secret.
func (r *Rogue13) SendAppData(payload []byte) {
	keys, _ := NewKeys13(r.suite.id, r.sAP)
	r.N.Inject(time.Millisecond, r.Self, r.Peer, keys.Seal13(3, r.ackSeq, nil, CTAppData, payload, 0))
	r.ackSeq++
}

// OpenAppData opens the epoch-3 application records of a client datagram with the client
// application traffic secret and returns their payloads.
func (r *Rogue13) OpenAppData(data []byte) [][]byte {
	var out [][]byte
	if r.cAP == nil {
		return nil
	}
	keys, _ := NewKeys13(r.suite.id, r.cAP)
	recs, _ := ParseDatagram(data, 0)
	for _, rec := range recs {
		if !rec.Unified || rec.Epoch != 3 {
			continue
		}
		if ct, plain, _, err := keys.Open13(rec, r.cAPNext); err == nil && ct == CTAppData {
			out = append(out, plain)
			r.cAPNext++
		}
	}

	return out
}

// checkClientMessage judges one decrypted handshake record of the client's final flight against
// the reference formulas: Certificate (parsable leaf), CertificateVerify (signature by the leaf key
// over 64 spaces, "TLS 1.3, client CertificateVerify", 0, Transcript-Hash), Finished
// (HMAC(finished_key(client_handshake_traffic_secret), Transcript-Hash)). Each message is taken
// into the transcript once, in message_seq order as the client sends them.
func (r *Rogue13) checkClientMessage(plain []byte) {
	for _, f := range ParseHsFrags(plain) {
		if f.FLen != f.Length || f.Off != 0 {
			r.ClientFlightBad = "client message fragmented (not handled by the reference server)"

			return
		}
		if r.seenHs == nil {
			r.seenHs = map[uint16]bool{}
		}
		if r.seenHs[f.MsgSeq] {
			continue // retransmission
		}
		r.seenHs[f.MsgSeq] = true
		h := r.suite.h
		switch f.Type {
		case 11: // Certificate: context(1) list(3) {cert(3) ext(2)}
			b := f.Body
			if len(b) >= 4+3 && int(b[0]) == 0 {
				l := int(b[4])<<16 | int(b[5])<<8 | int(b[6])
				if len(b) >= 7+l && l > 0 {
					if leaf, err := x509.ParseCertificate(b[7 : 7+l]); err == nil {
						r.clientLeaf = leaf
					}
				}
			}
			if r.clientLeaf == nil && r.RequestClientCert {
				r.ClientFlightBad = "client Certificate message carries no parsable leaf"
			}
		case 15: // CertificateVerify
			content := append(bytes.Repeat([]byte{0x20}, 64), []byte("TLS 1.3, client CertificateVerify")...)
			content = append(content, 0)
			content = append(content, hashOf(h, r.transcript)...)
			ok := false
			if len(f.Body) >= 4 && r.clientLeaf != nil {
				scheme := uint16(f.Body[0])<<8 | uint16(f.Body[1])
				sig := f.Body[4:]
				switch pub := r.clientLeaf.PublicKey.(type) {
				case *ecdsa.PublicKey:
					d := sha256.Sum256(content)
					ok = scheme == 0x0403 && ecdsa.VerifyASN1(pub, d[:], sig)
				case ed25519.PublicKey:
					ok = scheme == 0x0807 && ed25519.Verify(pub, content, sig)
				}
			}
			if !ok {
				r.ClientFlightBad = "client CertificateVerify does not verify under the RFC 8446 4.4.3 content and the presented leaf key"
			} else {
				r.ClientCertOK = true
			}
		case 20: // Finished
			fk := ExpandLabel13(h, r.cHS, "finished", nil, r.suite.hlen)
			mac := hmac.New(h, fk)
			mac.Write(hashOf(h, r.transcript))
			if !hmac.Equal(mac.Sum(nil), f.Body) {
				r.ClientFlightBad = fmt.Sprintf("client Finished verify_data %x differs from HMAC(finished_key(c hs traffic), transcript hash) %x", f.Body, mac.Sum(nil))
			} else {
				r.ClientFinOK = true
			}
		}
		r.transcript = append(r.transcript, canonical13(f.Type, f.Body)...)
	}
}

// Exporter is the RFC 8446 7.5 exporter with an empty context:
// HKDF-Expand-Label(Derive-Secret(exporter_master_secret, label, ""), "exporter", Hash(""), n).
func (r *Rogue13) Exporter(label string, n int) []byte {
	h := r.suite.h
	empty := hashOf(h)

	return ExpandLabel13(h, ExpandLabel13(h, r.expMaster, label, empty, r.suite.hlen), "exporter", empty, n)
}

var rogueCookie = []byte("refdtls-cookie-0123456789abcdef")

func hasCookie13(h *Hello, cookie []byte) bool {
	b, ok := h.Ext(ExtCookie13)

	return ok && len(b) >= 2 && bytes.Equal(b[2:], cookie)
}

// sendRetry answers the first ClientHello with a HelloRetryRequest: a ServerHello whose random is
// SHA-256("HelloRetryRequest"), with supported_versions and a cookie.
func (r *Rogue13) sendRetry(ch *HsMsg) error {
	hello, err := ParseClientHello(ch.Body)
	if err != nil {
		return err
	}
	var ok bool
	for _, id := range hello.Suites {
		if r.suite, ok = suites13ref[id]; ok {
			break
		}
	}
	if !ok {
		return fmt.Errorf("rogue13: no DTLS 1.3 suite offered")
	}
	hrr := []byte{0xfe, 0xfd}
	hrr = append(hrr, hrrRandom...)
	hrr = append(hrr, byte(len(hello.SessionID)))
	hrr = append(hrr, hello.SessionID...)
	hrr = append(hrr, byte(r.suite.id>>8), byte(r.suite.id), 0)
	exts := []byte{0, 43, 0, 2, 0xfe, 0xfc}
	exts = append(exts, 0, byte(ExtCookie13), byte((2+len(rogueCookie))>>8), byte(2+len(rogueCookie)), byte(len(rogueCookie)>>8), byte(len(rogueCookie)))
	exts = append(exts, rogueCookie...)
	hrr = append(hrr, byte(len(exts)>>8), byte(len(exts)))
	hrr = append(hrr, exts...)
	// RFC 8446 4.4.1: ClientHello1 is replaced by message_hash || 00 00 Hash.length || Hash(ClientHello1)
	h1 := hashOf(r.suite.h, canonical13(1, ch.Body))
	r.hrrPrefix = append([]byte{254, 0, 0, byte(len(h1))}, h1...)
	r.hrrPrefix = append(r.hrrPrefix, canonical13(2, hrr)...)
	r.retrySent, r.seqOff = true, 1
	r.N.Inject(time.Millisecond, r.Self, r.Peer, plaintextRecord(22, 0, dtlsHs(2, 0, hrr)))
	r.S.Fault("refdtls-hello-retry-request")

	return nil
}
