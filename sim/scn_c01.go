package verifsim

import (
	"bytes"
	"fmt"
	"math/rand/v2"
	"time"

	dtls "github.com/pion/dtls/v3"
)

// C01: when both sides report success they hold the same session.

type C01Params struct {
	C      EpSpec   `json:"c"`
	Srv    EpSpec   `json:"s"`
	Rules  NetRules `json:"rules"`
	Resume bool     `json:"resume"` // a second connection over the same stores is the one judged
	Core   string   `json:"core"`
	// CancelOnReturn: each side cancels the context it passed to HandshakeContext as soon as the call
	// has returned (the usual `defer cancel()`); the session must be none the worse for it
	CancelOnReturn bool `json:"cancel_on_return,omitempty"`
}

func c01Counts(tier string) (int, int) {
	if tier == "thorough" {
		return 0, 100000000
	}

	return 0, 10000000
}

func shuffled[T any](r *rand.Rand, in []T) []T {
	out := append([]T(nil), in...)
	r.Shuffle(len(out), func(i, j int) { out[i], out[j] = out[j], out[i] })

	return out
}

func subsetWith[T comparable](r *rand.Rand, universe []T, must T) []T {
	out := []T{must}
	for _, u := range universe {
		if u != must && r.IntN(2) == 0 {
			out = append(out, u)
		}
	}

	return shuffled(r, out)
}

var (
	suitesECDSA12 = []uint16{suiteECDSAGCM, suiteECDSAGCM384, suiteECDSACBC, suiteECDSACCM, suiteECDSACCM8, suiteECDSAChaCha}
	suitesRSA12   = []uint16{suiteRSAGCM, 0xc030, 0xc014, 0xcca8}
	suitesPSK12   = []uint16{suitePSKGCM, suitePSKCCM8, 0xc0a4, suitePSKCBC, suitePSKChaCha, 0xc0a9}
	suites13      = []uint16{suite13AES128, suite13AES256, suite13ChaCha}
	curvesAll     = []uint16{0x001d, 0x0017, 0x0018}
)

// genCompatiblePair draws a compatible client/server configuration pair around a common core.
func genCompatiblePair(r *rand.Rand) (c, s EpSpec, core string) {
	c.CIDLen, s.CIDLen = -1, -1
	mode := []string{"12", "12", "12", "13", "13", "dual-dual", "dual-12", "12-dual"}[r.IntN(8)]
	switch mode {
	case "12":
		c.MinVer, c.MaxVer, s.MinVer, s.MaxVer = 12, 12, 12, 12
	case "13":
		c.MinVer, c.MaxVer, s.MinVer, s.MaxVer = 13, 13, 13, 13
	case "dual-dual":
		c.MinVer, c.MaxVer, s.MinVer, s.MaxVer = 12, 13, 12, 13
	case "dual-12":
		c.MinVer, c.MaxVer, s.MinVer, s.MaxVer = 12, 13, 12, 12
	case "12-dual":
		c.MinVer, c.MaxVer, s.MinVer, s.MaxVer = 12, 12, 12, 13
	}
	is13 := mode == "13" || mode == "dual-dual"
	auth := []string{"ecdsa", "ecdsa", "ed25519", "rsa", "psk", "ecdhepsk"}[r.IntN(6)]
	if c.MaxVer == 13 || s.MaxVer == 13 {
		// keep 1.3-capable endpoints on certificates (the 1.3 path has no PSK mode here)
		auth = []string{"ecdsa", "ed25519", "rsa"}[r.IntN(3)]
		if mode == "13" || mode == "dual-dual" {
			auth = []string{"ecdsa", "ed25519"}[r.IntN(2)] // RSA certificates are not negotiable in the 1.3 path (fails with an alert; C11's business)
		}
	}
	switch auth {
	case "ecdsa", "ed25519":
		s.Cert = map[string]string{"ecdsa": []string{"srv-ecdsa", "srv-ecdsa384"}[r.IntN(2)], "ed25519": "srv-ed25519"}[auth]
		if c.MaxVer == 12 && s.MaxVer == 12 {
			common := suitesECDSA12[r.IntN(len(suitesECDSA12))]
			c.Suites, s.Suites = subsetWith(r, suitesECDSA12, common), subsetWith(r, suitesECDSA12, common)
		}
	case "rsa":
		s.Cert = "srv-rsa"
		if c.MaxVer == 12 && s.MaxVer == 12 {
			common := suitesRSA12[r.IntN(len(suitesRSA12))]
			c.Suites, s.Suites = subsetWith(r, suitesRSA12, common), subsetWith(r, suitesRSA12, common)
		}
	case "psk":
		common := suitesPSK12[r.IntN(len(suitesPSK12))]
		c.Suites, s.Suites = subsetWith(r, suitesPSK12, common), subsetWith(r, suitesPSK12, common)
		c.PSK, s.PSK, c.PSKHint, s.PSKHint = "verif-psk-agree", "verif-psk-agree", "hint-c", "hint-s"
	case "ecdhepsk":
		c.Suites, s.Suites = []uint16{suiteECDHEPSKCBC}, []uint16{suiteECDHEPSKCBC}
		c.PSK, s.PSK, c.PSKHint, s.PSKHint = "verif-psk-agree", "verif-psk-agree", "hint-c", "hint-s"
	}
	if s.Cert != "" {
		if r.IntN(3) != 0 {
			c.VerifyPeer, c.UseRoots, c.ServerName = true, 1, ServerName
		}
		// client authentication
		s.ClientAuth = r.IntN(5)
		haveClientCert := r.IntN(2) == 0 || s.ClientAuth == int(dtls.RequireAnyClientCert) || s.ClientAuth == int(dtls.RequireAndVerifyClientCert)
		if haveClientCert {
			c.Cert = []string{"cli-ecdsa", "cli-ed25519", "cli-rsa"}[r.IntN(3)]
		}
		if s.ClientAuth >= int(dtls.VerifyClientCertIfGiven) {
			s.UseRoots, s.VerifyPeer = 1, true
		}
	}
	if r.IntN(2) == 0 && auth != "psk" {
		common := curvesAll[r.IntN(len(curvesAll))]
		c.Curves, s.Curves = subsetWith(r, curvesAll, common), subsetWith(r, curvesAll, common)
	}
	ems := [][2]int{{0, 0}, {0, 1}, {1, 0}, {1, 1}, {2, 2}, {2, 0}, {0, 2}}[r.IntN(7)]
	c.EMS, s.EMS = ems[0], ems[1]
	if r.IntN(2) == 0 {
		c.CIDLen, c.CIDTag = []int{0, 1, 4, 8, 16}[r.IntN(5)], 0x10
	}
	if r.IntN(2) == 0 {
		s.CIDLen, s.CIDTag = []int{0, 1, 4, 8, 16}[r.IntN(5)], 0x50
	}
	if r.IntN(3) == 0 {
		all := []uint16{1, 2, 7, 8}
		common := all[r.IntN(4)]
		c.SRTP, s.SRTP = subsetWith(r, all, common), subsetWith(r, all, common)
		if r.IntN(2) == 0 {
			c.MKI = "mki-from-client"
		}
		if r.IntN(2) == 0 {
			s.MKI = "mki-from-server"
		}
	}
	if r.IntN(3) == 0 {
		all := []string{"h3", "webrtc", "coap", "x"}
		common := all[r.IntN(4)]
		c.ALPN, s.ALPN = subsetWith(r, all, common), subsetWith(r, all, common)
	}
	if r.IntN(3) == 0 {
		m := []int{100, 200, 400, 900, 1200}[r.IntN(5)]
		c.MTU, s.MTU = m, m
	}
	s.SkipHelloVerify = r.IntN(2) == 0
	if r.IntN(3) == 0 {
		c.Store, s.Store = "cstore", "sstore"
	}
	core = fmt.Sprintf("%s/%s/ems%d%d/ca%d", mode, auth, c.EMS, s.EMS, s.ClientAuth)
	_ = is13

	return c, s, core
}

func c01Gen(r *rand.Rand, tier string, idx int) any {
	p := &C01Params{}
	p.C, p.Srv, p.Core = genCompatiblePair(r)
	p.Resume = p.C.Store != "" && r.IntN(2) == 0
	p.CancelOnReturn = r.IntN(2) == 0
	if r.IntN(3) != 0 {
		p.Rules = NetRules{DropPm: 30 + r.IntN(200), DupPm: r.IntN(150), HoldPm: r.IntN(150), FaultsUntilIdx: 3 + r.IntN(14),
			HoldMaxNs: int64(time.Millisecond) * int64(10+r.IntN(3000))}
	}

	return p
}

// CheckAgreement compares the two endpoints' view of one association.
func CheckAgreement(rc *RunCtx, pair *Pair, n *SimNet, cspec, sspec EpSpec, resumed bool) bool {
	c, s := pair.Client, pair.Server
	cs, ok1 := c.ConnectionState()
	ss, ok2 := s.ConnectionState()
	if !ok1 || !ok2 {
		rc.Violate("no-state", "ConnectionState unavailable after a successful handshake (client %v, server %v)", ok1, ok2)

		return false
	}
	cv, sv := dtls.VerifSessionOf(c), dtls.VerifSessionOf(s)
	if cv.Version != sv.Version {
		rc.Violate("version-differs", "client speaks %#04x, server %#04x", cv.Version, sv.Version)

		return false
	}
	if cs.CipherSuiteID != ss.CipherSuiteID {
		rc.Violate("suite-differs", "client %v server %v", cs.CipherSuiteID, ss.CipherSuiteID)

		return false
	}
	if cs.NegotiatedProtocol != ss.NegotiatedProtocol {
		rc.Violate("alpn-differs", "client %q server %q", cs.NegotiatedProtocol, ss.NegotiatedProtocol)

		return false
	}
	if cspec.PSK != "" && !resumed && cv.Version == 0xfefd {
		// the identities the two sides named to each other are part of the session each reports: the
		// client holds the hint the server presented, the server the identity the client answered with
		if string(cs.IdentityHint) != sspec.PSKHint || string(ss.IdentityHint) != cspec.PSKHint {
			rc.Violate("psk-identity-differs", "server presented identity hint %q and the client reports %q; client named identity %q and the server reports %q", sspec.PSKHint, cs.IdentityHint, cspec.PSKHint, ss.IdentityHint)

			return false
		}
		rc.S.Probe("psk-identities-compared")
	}
	for _, label := range []string{"EXTRACTOR-dtls_srtp", "EXPERIMENTAL-verif", "x"} {
		for _, l := range []int{16, 75} {
			a, e1 := cs.ExportKeyingMaterial(label, nil, l)
			b, e2 := ss.ExportKeyingMaterial(label, nil, l)
			if e1 != nil || e2 != nil {
				rc.Violate("ekm-error", "ExportKeyingMaterial(%q,%d): client err %v, server err %v", label, l, e1, e2)

				return false
			}
			if !bytes.Equal(a, b) || len(a) != l {
				rc.Violate("ekm-differs", "ExportKeyingMaterial(%q,%d) differs between client and server", label, l)

				return false
			}
		}
	}
	pc, okc := c.SelectedSRTPProtectionProfile()
	ps, oks := s.SelectedSRTPProtectionProfile()
	if pc != ps || okc != oks {
		rc.Violate("srtp-differs", "client %v/%v server %v/%v", pc, okc, ps, oks)

		return false
	}
	if okc {
		mc, _ := c.RemoteSRTPMasterKeyIdentifier()
		ms, _ := s.RemoteSRTPMasterKeyIdentifier()
		// RFC 5764 4.1: the client offers an MKI, the server echoes it or returns none
		if !bytes.Equal(ms, []byte(cspec.MKI)) || (len(mc) != 0 && !bytes.Equal(mc, []byte(cspec.MKI))) {
			rc.Violate("mki-differs", "client offered MKI %q; server sees %q, client sees the server answer %q", cspec.MKI, ms, mc)

			return false
		}
		rc.S.Probe("srtp-negotiated")
	}
	// certificates: each side's view equals what the peer was configured with
	wantAtClient := [][]byte(nil)
	if sspec.Cert != "" {
		wantAtClient = certPool.Leaf[sspec.Cert].Certificate
	}
	if resumed && len(cs.PeerCertificates) == 0 {
		// an abbreviated handshake carries no Certificate: "what the peer presented" is nothing
		rc.S.Probe("resumed-no-certificates")
	} else if !equalChains(cs.PeerCertificates, wantAtClient) {
		rc.Violate("peer-cert-differs", "client's view of the server chain (%d certs) is not what the server presented (%d)", len(cs.PeerCertificates), len(wantAtClient))

		return false
	}
	if len(ss.PeerCertificates) > 0 {
		want := [][]byte(nil)
		if cspec.Cert != "" {
			want = certPool.Leaf[cspec.Cert].Certificate
		}
		if !equalChains(ss.PeerCertificates, want) {
			rc.Violate("peer-cert-differs", "server's view of the client chain is not what the client presented")

			return false
		}
		rc.S.Probe("client-cert-seen")
	} else if !resumed && cspec.Cert != "" && sspec.ClientAuth >= int(dtls.RequireAnyClientCert) && sspec.ClientAuth != int(dtls.VerifyClientCertIfGiven) {
		rc.Violate("peer-cert-differs", "server required a client certificate, succeeded, and reports none")

		return false
	}
	// connection IDs mirrored
	if !bytes.Equal(cv.LocalCID, sv.RemoteCID) || !bytes.Equal(sv.LocalCID, cv.RemoteCID) {
		rc.Violate("cid-not-mirrored", "client local/remote %x/%x, server local/remote %x/%x", cv.LocalCID, cv.RemoteCID, sv.LocalCID, sv.RemoteCID)

		return false
	}
	if len(cv.LocalCID)+len(sv.LocalCID) > 0 {
		rc.S.Probe("cid-negotiated")
		if len(cv.LocalCID) > 0 && !bytes.Equal(cv.LocalCID, cspec.CIDOf()) || len(sv.LocalCID) > 0 && !bytes.Equal(sv.LocalCID, sspec.CIDOf()) {
			rc.Violate("cid-not-own", "an endpoint's local CID is not the one its generator produced")

			return false
		}
	}

	return true
}

func equalChains(a, b [][]byte) bool {
	if len(a) != len(b) {
		return false
	}
	for i := range a {
		if !bytes.Equal(a[i], b[i]) {
			return false
		}
	}

	return true
}

// DataFlows writes k payloads each way and requires them to be read intact.
func DataFlows(rc *RunCtx, pair *Pair, k int) bool {
	return dataFlowsWith(rc, pair, k, nil, nil)
}

// dataFlowsWith is DataFlows with readers that may already be running (and may already hold
// payloads listed in pair.Early).
func dataFlowsWith(rc *RunCtx, pair *Pair, k int, rdC, rdS *Reader) bool {
	s := rc.S
	if rdC == nil {
		rdC = pair.StartReader("c")
	}
	if rdS == nil {
		rdS = pair.StartReader("s")
	}
	late := func(got [][]byte) [][]byte {
		var out [][]byte
		seen := map[string]bool{}
		for _, g := range got {
			if pair.Early[string(g)] {
				if seen[string(g)] {
					out = append(out, g) // a duplicate of an early payload is not excused
				}
				seen[string(g)] = true

				continue
			}
			out = append(out, g)
		}

		return out
	}
	var sent [2][][]byte
	for i := 0; i < k; i++ {
		pc, ps := Payload("c", 9, i, 30+i), Payload("s", 9, i, 30+i)
		sent[0], sent[1] = append(sent[0], pc), append(sent[1], ps)
		if err := pair.WriteSync("c", pc, 10*time.Second); err != nil {
			rc.Violate("no-data-flow", "client write after a successful handshake: %v", err)

			return false
		}
		if err := pair.WriteSync("s", ps, 10*time.Second); err != nil {
			rc.Violate("no-data-flow", "server write after a successful handshake: %v", err)

			return false
		}
	}
	s.Run(func() bool { return len(late(rdS.Got)) >= k && len(late(rdC.Got)) >= k }, 10*time.Second)
	gotS, gotC := late(rdS.Got), late(rdC.Got)
	if len(gotS) != k || len(gotC) != k {
		rc.Violate("no-data-flow", "after a successful handshake on a reliable link the server read %d/%d and the client %d/%d payloads", len(gotS), k, len(gotC), k)

		return false
	}
	for i := 0; i < k; i++ {
		if !bytes.Equal(gotS[i], sent[0][i]) || !bytes.Equal(gotC[i], sent[1][i]) {
			rc.Violate("data-altered", "payload %d differs from what was written", i)

			return false
		}
	}

	return true
}

func c01Run(rc *RunCtx, params any) {
	p := params.(*C01Params)
	s := rc.S
	rc.R.Class = p.Core
	env := &Env{Stores: map[string]dtls.SessionStore{"cstore": NewSimStore(s, "cstore", 0), "sstore": NewSimStore(s, "sstore", 0)}}
	if p.Resume {
		n0 := NewSimNet(s, NetRules{})
		p0, err := NewPairNamed(s, n0, p.C, p.Srv, env, "c0", "s0")
		if err != nil {
			rc.Note("config-rejected", err.Error())

			return
		}
		p0.StartHandshakes(0)
		ok := s.Run(p0.BothDone, 2*time.Minute) && p0.BothOK()
		p0.Teardown()
		if !ok {
			rc.Note("prelude-failed", fmt.Sprintf("c=%v s=%v", p0.CHs.Err, p0.SHs.Err))
			s.Probe("prelude-failed")

			return
		}
	}
	n := NewSimNet(s, p.Rules)
	pair, err := NewPair(s, n, p.C, p.Srv, env)
	if err != nil {
		rc.Note("config-rejected", err.Error())
		s.Probe("config-rejected")

		return
	}
	// each side writes as soon as its own handshake returns (the owner of the last flight does so
	// while the peer may still be retransmitting); these payloads may be lost under the faults
	pair.Early = map[string]bool{}
	var rdC, rdS *Reader
	pair.OnHsDone = func(ep string, err error) {
		if err != nil {
			return
		}
		if ep == "c" {
			rdC = pair.StartReader("c")
		} else {
			rdS = pair.StartReader("s")
		}
		for k := 0; k < 2; k++ {
			pl := Payload(ep, 6, k, 25+k)
			pair.Early[string(pl)] = true
			if _, werr := pair.ConnOf(ep).Write(pl); werr != nil {
				return
			}
		}
		s.Probe("early-write-after-own-handshake")
	}
	pair.CancelOnReturn = p.CancelOnReturn
	pair.StartHandshakes(0)
	s.Run(pair.BothDone, 10*time.Minute)
	rc.R.NonTriv = true
	if !pair.BothOK() {
		// failure to complete is C02's / C11's business; agreement is only judged on success
		s.Probe("not-both-ok")
		rc.Note("not-both-ok", fmt.Sprintf("c=%v s=%v", errClass(pair.CHs.Err), errClass(pair.SHs.Err)))
		s.Probe("fail:" + errClass(pair.CHs.Err) + "|" + errClass(pair.SHs.Err))
		coreShort := p.Core
		if i := indexN(coreShort, '/', 2); i > 0 {
			coreShort = coreShort[:i]
		}
		s.Probe("failcore:" + coreShort + ":" + errClass(pair.CHs.Err) + "|" + errClass(pair.SHs.Err))
		pair.Teardown()

		return
	}
	s.Probe("both-ok")
	if p.Resume {
		s.Probe("judged-second-connection")
	}
	n.MakeReliable()
	s.Run(func() bool { return false }, 3*time.Second) // let retransmissions and tickets drain
	if CheckAgreement(rc, pair, n, p.C, p.Srv, p.Resume) {
		// wire: records towards X carry X's CID
		cv, sv := dtls.VerifSessionOf(pair.Client), dtls.VerifSessionOf(pair.Server)
		before := len(n.Emits)
		if dataFlowsWith(rc, pair, 3, rdC, rdS) {
			for _, em := range n.Emits[before:] {
				want := sv.LocalCID
				if em.Ep == "s" {
					want = cv.LocalCID
				}
				recs, perr := ParseDatagram(em.Data, len(want))
				if perr != nil {
					rc.Violate("wire-parse", "data-phase datagram of %s does not parse with CID length %d: %v", em.Ep, len(want), perr)

					break
				}
				for _, r := range recs {
					if len(want) > 0 && !bytes.Equal(r.CID, want) {
						rc.Violate("wire-cid", "record from %s carries CID %x, receiver's CID is %x", em.Ep, r.CID, want)
					}
				}
			}
		}
	}
	pair.Teardown()
}

func init() {
	Register(&Scenario{
		ID:        "C01",
		Counts:    c01Counts,
		Gen:       c01Gen,
		NewParams: func() any { return &C01Params{} },
		Run:       c01Run,
	})
}

func indexN(s string, c byte, n int) int {
	for i := 0; i < len(s); i++ {
		if s[i] == c {
			n--
			if n == 0 {
				return i
			}
		}
	}

	return -1
}
