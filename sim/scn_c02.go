package verifsim

import (
	"fmt"
	"math/rand/v2"
	"time"

	dtls "github.com/pion/dtls/v3"
)

// C02: handshake completes under any finite loss, duplication and reordering.

const (
	suiteECDSAGCM    = 0xc02b
	suiteECDSACBC    = 0xc00a
	suitePSKGCM      = 0x00a8
	suiteECDHEPSKCBC = 0xc037
	suiteECDSACCM    = 0xc0ac
	suiteECDSACCM8   = 0xc0ae
	suiteECDSAChaCha = 0xcca9
	suiteRSAGCM      = 0xc02f
	suitePSKCCM8     = 0xc0a8
	suitePSKCBC      = 0x00ae
	suitePSKChaCha   = 0xccab
	suiteECDSAGCM384 = 0xc02c
	suite13AES128    = 0x1301
	suite13AES256    = 0x1302
	suite13ChaCha    = 0x1303
)

// HsVariant names a handshake shape.
type HsVariant struct {
	Name   string
	C, S   EpSpec
	Resume bool
}

func baseCert12() (EpSpec, EpSpec) {
	c := EpSpec{MinVer: 12, MaxVer: 12, Suites: []uint16{suiteECDSAGCM}, VerifyPeer: true, UseRoots: 1, ServerName: ServerName, CIDLen: -1}
	s := EpSpec{MinVer: 12, MaxVer: 12, Suites: []uint16{suiteECDSAGCM}, Cert: "srv-ecdsa", CIDLen: -1}

	return c, s
}

func base13() (EpSpec, EpSpec) {
	c := EpSpec{MinVer: 13, MaxVer: 13, VerifyPeer: true, UseRoots: 1, ServerName: ServerName, CIDLen: -1}
	s := EpSpec{MinVer: 13, MaxVer: 13, Cert: "srv-ecdsa", CIDLen: -1}

	return c, s
}

// Variants returns the handshake variants C02 (and others) cross with faults.
func Variants() []HsVariant {
	var vs []HsVariant
	c, s := baseCert12()
	vs = append(vs, HsVariant{Name: "12-cert", C: c, S: s})
	c, s = baseCert12()
	c.Cert = "cli-ecdsa"
	s.ClientAuth = int(dtls.RequireAndVerifyClientCert)
	s.UseRoots = 1
	s.VerifyPeer = true
	vs = append(vs, HsVariant{Name: "12-clientauth", C: c, S: s})
	psk := EpSpec{MinVer: 12, MaxVer: 12, Suites: []uint16{suitePSKGCM}, PSK: "verif-psk-0123456789", PSKHint: "hint", CIDLen: -1}
	vs = append(vs, HsVariant{Name: "12-psk", C: psk, S: psk})
	epsk := psk
	epsk.Suites = []uint16{suiteECDHEPSKCBC}
	vs = append(vs, HsVariant{Name: "12-ecdhepsk", C: epsk, S: epsk})
	c, s = baseCert12()
	c.Store, s.Store = "cstore", "sstore"
	vs = append(vs, HsVariant{Name: "12-resume", C: c, S: s, Resume: true})
	c, s = baseCert12()
	c.MTU, s.MTU = 100, 100
	vs = append(vs, HsVariant{Name: "12-mtu100", C: c, S: s})
	c, s = baseCert12()
	s.SkipHelloVerify = true
	vs = append(vs, HsVariant{Name: "12-nohv", C: c, S: s})
	c, s = baseCert12()
	c.CIDLen, s.CIDLen = 4, 6
	c.CIDTag, s.CIDTag = 1, 2
	vs = append(vs, HsVariant{Name: "12-cid", C: c, S: s})
	c, s = base13()
	s.SkipHelloVerify = true
	vs = append(vs, HsVariant{Name: "13-full", C: c, S: s})
	c, s = base13()
	vs = append(vs, HsVariant{Name: "13-hrr", C: c, S: s})
	c, s = base13()
	s.SkipHelloVerify = true
	c.Cert = "cli-ecdsa"
	s.ClientAuth = int(dtls.RequireAndVerifyClientCert)
	s.UseRoots = 1
	s.VerifyPeer = true
	vs = append(vs, HsVariant{Name: "13-clientauth", C: c, S: s})
	c, s = baseCert12()
	c.MaxVer = 13
	c.Suites = nil
	vs = append(vs, HsVariant{Name: "dual-12", C: c, S: s})
	c, s = base13()
	c.MinVer, s.MinVer = 12, 12
	vs = append(vs, HsVariant{Name: "dual-13", C: c, S: s})

	return vs
}

func variantByName(name string) (HsVariant, bool) {
	for _, v := range Variants() {
		if v.Name == name {
			return v, true
		}
	}

	return HsVariant{}, false
}

type C02Params struct {
	Variant  string   `json:"variant"`
	Rules    NetRules `json:"rules"`
	FlightMs int      `json:"flight_ms,omitempty"`
	NoBack   bool     `json:"nobackoff,omitempty"`
	MTU      int      `json:"mtu,omitempty"`
	Enum     string   `json:"enum,omitempty"`
	// ServerFlightMs / ServerNoBack: the server's timer settings where they differ from the
	// client's (FlightMs / NoBack then apply to the client only)
	ServerFlightMs int  `json:"server_flight_ms,omitempty"`
	ServerNoBack   bool `json:"server_nobackoff,omitempty"`
	// CancelOnReturn: each side cancels its handshake context as soon as HandshakeContext returned
	CancelOnReturn bool `json:"cancel_on_return,omitempty"`
}

// liveness bound after the last fault: F flights of at most one capped timeout each.
const c02Bound = 8 * 61 * time.Second

func c02DropBits(tier string) int {
	if tier == "thorough" {
		return 6
	}

	return 4
}

func c02Counts(tier string) (int, int) {
	nv := len(Variants())
	n := c02DropBits(tier)
	enum := nv * (1 << (2 * n))
	if tier == "thorough" {
		enum += nv * 15625 // 5 actions ^ (3+3)
		return enum, 100000000
	}

	return enum, 10000000
}

var c02Actions = []int{ActDeliver, ActDrop, ActDup, ActHoldN | 1<<8, ActHoldN | 3<<8}

func c02Gen(r *rand.Rand, tier string, idx int) any {
	vs := Variants()
	nv := len(vs)
	n := c02DropBits(tier)
	p := &C02Params{Rules: NetRules{Mask: map[string][]int{}}}
	dropSpace := nv * (1 << (2 * n))
	switch {
	case idx < dropSpace:
		v := idx % nv
		m := idx / nv
		p.Variant = vs[v].Name
		p.Enum = fmt.Sprintf("drop-mask n=%d mask=%0*b", n, 2*n, m)
		cm, sm := make([]int, n), make([]int, n)
		for i := 0; i < n; i++ {
			if m>>(i)&1 == 1 {
				cm[i] = ActDrop
			}
			if m>>(n+i)&1 == 1 {
				sm[i] = ActDrop
			}
		}
		p.Rules.Mask["c"], p.Rules.Mask["s"] = cm, sm
	case tier == "thorough" && idx < dropSpace+nv*15625:
		k := idx - dropSpace
		v := k % nv
		m := k / nv
		p.Variant = vs[v].Name
		cm, sm := make([]int, 3), make([]int, 3)
		mm := m
		for i := 0; i < 3; i++ {
			cm[i] = c02Actions[mm%5]
			mm /= 5
		}
		for i := 0; i < 3; i++ {
			sm[i] = c02Actions[mm%5]
			mm /= 5
		}
		p.Enum = fmt.Sprintf("action-mask n=3 code=%d", m)
		p.Rules.Mask["c"], p.Rules.Mask["s"] = cm, sm
	default:
		p.Variant = vs[r.IntN(nv)].Name
		p.Rules = NetRules{
			DropPm: 50 + r.IntN(350), DupPm: r.IntN(150), HoldPm: r.IntN(200),
			FaultsUntilIdx: 4 + r.IntN(21),
			BaseLatencyNs:  int64(time.Millisecond) * int64(1+r.IntN(80)),
			JitterNs:       int64(time.Microsecond) * int64(1+r.IntN(20000)),
			HoldMaxNs:      int64(time.Millisecond) * int64(10+r.IntN(4000)),
		}
		if r.IntN(4) == 0 {
			p.Rules.DropPm, p.Rules.DupPm, p.Rules.HoldPm = 0, 0, 0 // calm run
		}
		if r.IntN(2) == 0 {
			p.FlightMs = []int{20, 50, 200, 500, 1000, 2000}[r.IntN(6)]
		}
		p.NoBack = r.IntN(4) == 0
		if r.IntN(3) == 0 {
			p.MTU = []int{64, 100, 200, 300, 600, 1200}[r.IntN(6)]
		}
		if r.IntN(4) == 0 { // unequal timers: one side's retransmissions arrive inside the other's interval
			p.FlightMs = []int{100, 300, 1000, 2000}[r.IntN(4)]
			p.ServerFlightMs = []int{20, 60, 150, 4000}[r.IntN(4)]
			p.NoBack, p.ServerNoBack = r.IntN(3) == 0, r.IntN(2) == 0
		}
		p.CancelOnReturn = r.IntN(3) == 0
	}
	if idx < dropSpace {
		p.CancelOnReturn = (idx/nv)%3 == 1
	}

	return p
}

func applyKnobs(e *EpSpec, flightMs int, noBack bool, mtu int) {
	if flightMs > 0 {
		e.FlightMs = flightMs
	}
	if noBack {
		e.NoBackoff = true
	}
	if mtu > 0 {
		e.MTU = mtu
	}
}

// runResumePrelude performs a clean first connection that fills both stores.
func runResumePrelude(rc *RunCtx, v HsVariant, env *Env) bool {
	s := rc.S
	n0 := NewSimNet(s, NetRules{})
	p0, err := NewPairNamed(s, n0, v.C, v.S, env, "c0", "s0")
	if err != nil {
		rc.Violate("harness", "prelude config: %v", err)

		return false
	}
	p0.StartHandshakes(0)
	if !s.Run(p0.BothDone, 60*time.Second) || !p0.BothOK() {
		rc.Violate("prelude", "clean first handshake failed: c=%v s=%v", p0.CHs.Err, p0.SHs.Err)
		p0.Teardown()

		return false
	}
	p0.Teardown()

	return true
}

func c02Run(rc *RunCtx, params any) {
	p := params.(*C02Params)
	s := rc.S
	v, ok := variantByName(p.Variant)
	if !ok {
		rc.Violate("harness", "unknown variant %q", p.Variant)

		return
	}
	rc.R.Class = v.Name
	applyKnobs(&v.C, p.FlightMs, p.NoBack, p.MTU)
	if p.ServerFlightMs > 0 {
		applyKnobs(&v.S, p.ServerFlightMs, p.ServerNoBack, p.MTU)
	} else {
		applyKnobs(&v.S, p.FlightMs, p.NoBack, p.MTU)
	}
	env := &Env{Stores: map[string]dtls.SessionStore{}}
	if v.Resume {
		env.Stores["cstore"] = NewSimStore(s, "cstore", 0)
		env.Stores["sstore"] = NewSimStore(s, "sstore", 0)
		if !runResumePrelude(rc, v, env) {
			return
		}
	}
	rc.Note("proto", protoTag(v.C, v.S))
	n := NewSimNet(s, p.Rules)
	pair, err := NewPair(s, n, v.C, v.S, env)
	if err != nil {
		rc.Violate("harness", "config: %v", err)

		return
	}
	// liveness is decided by the step budget (no progress in virtual time), not by how many
	// datagrams a handshake costs: emission storms that still complete are C17's business
	s.MaxEmits = 0
	pair.CancelOnReturn = p.CancelOnReturn
	pair.StartHandshakes(0)
	for {
		limit := n.LastFaultAt + c02Bound
		if s.Now() >= limit {
			break
		}
		if s.Run(pair.BothDone, limit-s.Now()) {
			break
		}
		if len(s.Failures()) > 0 || len(s.Panics) > 0 {
			break
		}
	}
	faults := 0
	for _, c := range s.Faults {
		faults += c
	}
	rc.R.NonTriv = faults > 0
	if s.Overrun() {
		return // reported by the worker as a livelock / storm, not as a stall
	}
	switch {
	case !pair.BothDone():
		rc.Violate(fmt.Sprintf("stall:%s:c@%s:s@%s", v.Name, pair.Env.FSMState("c"), pair.Env.FSMState("s")), "handshake did not complete within %v after the last fault (t=%v): client done=%v err=%v, server done=%v err=%v",
			c02Bound, n.LastFaultAt, pair.CHs.Done, pair.CHs.Err, pair.SHs.Done, pair.SHs.Err)
	case !pair.BothOK():
		rc.Violate(fmt.Sprintf("fail:%s:c=%s:s=%s", v.Name, errClass(pair.CHs.Err), errClass(pair.SHs.Err)), "handshake failed under benign faults: client err=%v, server err=%v", pair.CHs.Err, pair.SHs.Err)
	default:
		lat := pair.CHs.At
		if pair.SHs.At > lat {
			lat = pair.SHs.At
		}
		s.Probe(fmt.Sprintf("latency<=%ds", bucket(int(lat/time.Second))))
		// how long after the last fault, in units of the retransmission interval in force then
		if n.LastFaultAt > 0 && lat > n.LastFaultAt {
			I := time.Second
			if p.FlightMs > 0 {
				I = time.Duration(p.FlightMs) * time.Millisecond
			}
			cur := I
			for _, ep := range []string{"c", "s"} {
				c := I
				for _, b := range burstsOf(n, ep, nil) {
					if b.cause == "timer" && b.at <= n.LastFaultAt && !p.NoBack {
						c = min(2*c, 60*time.Second)
					}
				}
				cur = max(cur, c)
			}
			ratio := float64(lat-n.LastFaultAt) / float64(cur)
			s.Probe(fmt.Sprintf("recovery<=%dx-interval-in-force-at-last-fault", bucket(int(ratio+0.999))))
		}
		if v.Resume {
			s.Probe("resumed-variant-completed")
		}
	}
	pair.Teardown()
}

// errClass reduces an error to a stable class for violation signatures.
func errClass(err error) string {
	if err == nil {
		return "ok"
	}
	m := err.Error()
	if len(m) > 60 {
		m = m[:60]
	}

	return m
}

func bucket(x int) int {
	for _, b := range []int{1, 2, 4, 8, 16, 32, 64, 128, 256, 512} {
		if x <= b {
			return b
		}
	}

	return 1024
}

func init() {
	Register(&Scenario{
		ID:              "C02",
		BudgetIsVerdict: true,
		Counts:          c02Counts,
		Gen:             c02Gen,
		NewParams:       func() any { return &C02Params{} },
		Run:             c02Run,
	})
}
