package verifsim

import (
	"crypto"
	"crypto/ecdsa"
	"crypto/ed25519"
	"crypto/tls"
	"crypto/x509"
	"encoding/asn1"
	"errors"
	"fmt"
	"io"
	"math/big"
	"math/rand/v2"
	"time"

	dtls "github.com/pion/dtls/v3"
)

// C03: no established session without the credential the policy requires.

type C03Params struct {
	Ver      int      `json:"ver"`      // 12 | 13
	Honest   string   `json:"honest"`   // "c": honest client, rogue server; "s": honest server, rogue client
	Auth     string   `json:"auth"`     // cert | psk | ecdhepsk
	KeyKind  string   `json:"key_kind"` // ecdsa | ed25519 | rsa
	Verify   bool     `json:"verify"`   // honest client: validate the chain (roots + server name)
	Callback bool     `json:"callback"` // honest side installs a VerifyPeerCertificate that rejects everything
	Policy   int      `json:"policy"`   // honest server: ClientAuthType 0..4
	Dev      string   `json:"deviation"`
	Rules    NetRules `json:"rules"`
}

var c03DevsServer = []string{"none", "wrong-ca", "wrong-name", "wrong-eku", "expired", "not-yet-valid", "other-key", "sig-flip", "sig-other-digest", "victim-leaf-behind-own-cert", "scheme-confusion"}
var c03DevsClient = []string{"none", "no-cert", "wrong-ca", "wrong-eku", "expired", "other-key", "sig-flip", "sig-other-digest", "victim-leaf-behind-own-cert", "scheme-confusion"}
var c03DevsPSK = []string{"none", "wrong-psk", "wrong-identity"}

type c03Case struct {
	ver               int
	honest, auth, key string
	verify, callback  bool
	policy            int
	dev               string
}

func c03Cases() []c03Case {
	var out []c03Case
	for _, ver := range []int{12, 13} {
		for _, key := range []string{"ecdsa", "ed25519", "rsa"} {
			if ver == 13 && key == "rsa" {
				continue
			}
			for _, verify := range []bool{true, false} {
				for _, dev := range c03DevsServer {
					if (dev == "scheme-confusion" || dev == "wrong-eku") && key != "ecdsa" {
						continue
					}
					out = append(out, c03Case{ver, "c", "cert", key, verify, false, 0, dev})
				}
				out = append(out, c03Case{ver, "c", "cert", key, verify, true, 0, "none"})
				if ver == 13 && key == "ecdsa" {
					out = append(out, c03Case{ver, "c", "cert", key, verify, false, 0, "no-server-auth"})
					out = append(out, c03Case{ver, "c", "cert", key, verify, false, 0, "cert-without-verify"})
				}
			}
			for policy := 0; policy <= 4; policy++ {
				for _, dev := range c03DevsClient {
					if (dev == "scheme-confusion" || dev == "wrong-eku") && key != "ecdsa" {
						continue
					}
					out = append(out, c03Case{ver, "s", "cert", key, false, false, policy, dev})
				}
			}
			for policy := 1; policy <= 4; policy++ {
				// the application's own verdict on the client certificate (a refusing VerifyPeerCertificate)
				// counts under every policy that asks for one
				out = append(out, c03Case{ver, "s", "cert", key, false, true, policy, "none"})
			}
			if ver == 13 {
				for _, policy := range []int{0, 2, 4} {
					out = append(out, c03Case{ver, "s", "cert", key, false, false, policy, "ack-instead-of-auth"})
				}
			}
		}
	}
	for policy := 0; policy <= 4; policy++ {
		out = append(out, c03Case{12, "s", "cert", "ecdsa", false, false, policy, "resume-after-unfinished-key-exchange"})
	}
	for _, honest := range []string{"c", "s"} {
		// the application's VerifyConnection callback on a resumed DTLS 1.2 connection
		out = append(out, c03Case{12, honest, "cert", "ecdsa", honest == "c", true, 0, "resumed:verify-connection-rejects"})
		out = append(out, c03Case{12, honest, "psk", "", false, true, 0, "resumed:verify-connection-rejects"})
	}
	for policy := 1; policy <= 4; policy++ {
		// a certificate-authenticated client whose certificate the server application stops accepting
		// (revoked, say) between two connections: the VerifyPeerCertificate callback must be asked
		// again - or the session must not be resumable at all
		out = append(out, c03Case{12, "s", "cert", "ecdsa", false, true, policy, "resumed:peer-certificate-callback-rejects"})
	}
	for _, ver := range []int{12, 13} {
		// the client names the server by its IP address
		out = append(out, c03Case{ver, "c", "cert", "ecdsa", true, false, 0, "ip-name:none"})
		out = append(out, c03Case{ver, "c", "cert", "ecdsa", true, false, 0, "ip-name:wrong-name"})
		out = append(out, c03Case{ver, "c", "cert", "ecdsa", true, false, 0, "ip-name:other-ip"})
		out = append(out, c03Case{ver, "c", "cert", "ecdsa", true, false, 0, "expires-between-connections"})
		out = append(out, c03Case{ver, "s", "cert", "ecdsa", false, false, 4, "expires-between-connections"})
		out = append(out, c03Case{ver, "s", "cert", "ecdsa", false, false, 3, "expires-between-connections"})
	}
	for _, auth := range []string{"psk", "ecdhepsk"} {
		for _, honest := range []string{"c", "s"} {
			for _, dev := range c03DevsPSK {
				out = append(out, c03Case{12, honest, auth, "", false, false, 0, dev})
			}
		}
	}

	return out
}

func c03Counts(tier string) (int, int) {
	if tier == "thorough" {
		return len(c03Cases()), 100000000
	}

	return len(c03Cases()), 10000000
}

func c03Gen(r *rand.Rand, tier string, idx int) any {
	cases := c03Cases()
	c := cases[idx%len(cases)]
	p := &C03Params{Ver: c.ver, Honest: c.honest, Auth: c.auth, KeyKind: c.key, Verify: c.verify, Callback: c.callback, Policy: c.policy, Dev: c.dev}
	if idx >= len(cases) && r.IntN(2) == 0 {
		// the rogue completes the handshake "otherwise correctly" also under loss and reordering of its flights
		p.Rules = NetRules{DropPm: 50 + r.IntN(250), DupPm: r.IntN(100), HoldPm: r.IntN(100), FaultsUntilIdx: 3 + r.IntN(10), HoldMaxNs: int64(time.Millisecond) * int64(10+r.IntN(2000))}
	}

	return p
}

// rogueSigner deviates in exactly one way when asked to sign.
type rogueSigner struct {
	pub   crypto.PublicKey
	inner crypto.Signer
	mode  string
	// forged is what "scheme-confusion" answers every signing request with
	forged []byte
}

// forgeECDSAZero builds, from a public key alone, an ECDSA signature that verifies for the
// hash value zero: R = v*Q, r = R.x mod n, s = r / v. A verifier that hashes the signed
// content with a real hash function never accepts it.
func forgeECDSAZero(pub *ecdsa.PublicKey) []byte {
	n := pub.Curve.Params().N
	v := big.NewInt(0x1d7154)
	x, _ := pub.Curve.ScalarMult(pub.X, pub.Y, v.Bytes()) //nolint:staticcheck
	r := new(big.Int).Mod(x, n)
	sv := new(big.Int).Mul(r, new(big.Int).ModInverse(v, n))
	sv.Mod(sv, n)
	out, _ := asn1.Marshal(struct{ R, S *big.Int }{r, sv})

	return out
}

func (r *rogueSigner) Public() crypto.PublicKey { return r.pub }
func (r *rogueSigner) Sign(rd io.Reader, digest []byte, opts crypto.SignerOpts) ([]byte, error) {
	switch r.mode {
	case "sig-other-digest":
		d := append([]byte(nil), digest...)
		if len(d) > 0 {
			d[0] ^= 0x80
		}

		return r.inner.Sign(rd, d, opts)
	case "scheme-confusion":
		return r.forged, nil
	case "sig-flip":
		sig, err := r.inner.Sign(rd, digest, opts)
		if err == nil && len(sig) > 8 {
			sig[len(sig)-3] ^= 0x04
		}

		return sig, err
	}

	return r.inner.Sign(rd, digest, opts)
}

// c03MustFail is the independent predicate required(policy) is-not-subset-of proven(deviation).
func c03MustFail(p *C03Params) bool {
	if p.Callback {
		return true
	}
	switch p.Dev {
	case "none", "ip-name:none":
		return false
	case "wrong-psk", "wrong-identity":
		return true
	case "ip-name:wrong-name", "ip-name:other-ip":
		return p.Verify
	}
	sigLevel := p.Dev == "other-key" || p.Dev == "sig-flip" || p.Dev == "sig-other-digest" || p.Dev == "scheme-confusion"
	if p.Dev == "no-server-auth" || p.Dev == "cert-without-verify" {
		// the server sends neither Certificate nor CertificateVerify: nothing binds it to any identity
		return true
	}
	if p.Dev == "ack-instead-of-auth" {
		// the client never sends Certificate / CertificateVerify / Finished: no server may call that a handshake
		return true
	}
	if p.Dev == "victim-leaf-behind-own-cert" {
		// the presented leaf (first certificate) is the rogue's own: it proves possession of that key,
		// so only chain validation can reject it
		if p.Honest == "c" {
			return p.Verify
		}

		return dtls.ClientAuthType(p.Policy) >= dtls.VerifyClientCertIfGiven
	}
	if p.Honest == "c" {
		if p.Dev == "empty-chain" || sigLevel {
			return true
		}

		return p.Verify // chain-level deviations matter only when the chain is validated
	}
	switch dtls.ClientAuthType(p.Policy) {
	case dtls.NoClientCert, dtls.RequestClientCert:
		return false
	case dtls.RequireAnyClientCert:
		return p.Dev == "no-cert" || sigLevel
	case dtls.VerifyClientCertIfGiven:
		return p.Dev != "no-cert"
	case dtls.RequireAndVerifyClientCert:
		return true
	}

	return false
}

type zeroReader struct{}

func (zeroReader) Read(b []byte) (int, error) {
	for i := range b {
		b[i] = 0
	}

	return len(b), nil
}

func leafName(role, kind string) string {
	k := map[string]string{"ecdsa": "ecdsa", "ed25519": "ed25519", "rsa": "rsa"}[kind]

	return role + "-" + k
}

func c03Run(rc *RunCtx, params any) {
	p := params.(*C03Params)
	s := rc.S
	rc.R.Class = fmt.Sprintf("v%d/%s/%s/%s", p.Ver, p.Honest, p.Auth, p.Dev)
	rc.R.NonTriv = p.Dev != "none"
	if p.Dev == "resumed:verify-connection-rejects" || p.Dev == "resumed:peer-certificate-callback-rejects" {
		c03ResumeCallback(rc, p)

		return
	}
	if p.Dev == "expires-between-connections" {
		c03Expiry(rc, p)

		return
	}
	if p.Dev == "resume-after-unfinished-key-exchange" {
		rc.Note("proto", "dtls12")
		c03ResumeUnfinished(rc, p)

		return
	}
	var cspec, sspec EpSpec
	env := &Env{Extra: map[string][]dtls.Option{}}
	if p.Auth == "cert" {
		if p.Ver == 12 {
			suite := uint16(suiteECDSAGCM)
			if p.KeyKind == "rsa" {
				suite = suiteRSAGCM
			}
			cspec, sspec = certPair12(suite, leafName("srv", p.KeyKind))
		} else {
			cspec, sspec = pair13(suite13AES128)
			sspec.Cert = leafName("srv", p.KeyKind)
		}
		cspec.VerifyPeer, cspec.UseRoots, cspec.ServerName = p.Verify, 1, ServerName
		if !p.Verify {
			cspec.UseRoots = 0
		}
	} else {
		suite := uint16(suitePSKGCM)
		if p.Auth == "ecdhepsk" {
			suite = suiteECDHEPSKCBC
		}
		cspec, sspec = pskPair(suite)
	}
	rogue := "s"
	if p.Honest == "s" {
		rogue = "c"
		sspec.ClientAuth = p.Policy
		if p.Policy >= int(dtls.VerifyClientCertIfGiven) {
			sspec.UseRoots, sspec.VerifyPeer = 1, true
		}
		if p.Auth == "cert" && p.Dev != "no-cert" && p.Dev != "ack-instead-of-auth" {
			cspec.Cert = leafName("cli", p.KeyKind)
		}
	}
	reject := dtls.WithVerifyPeerCertificate(func([][]byte, [][]*x509.Certificate) error { return errors.New("verif: policy callback rejects") })
	if p.Callback {
		env.Extra[p.Honest] = append(env.Extra[p.Honest], reject)
		if p.Honest == "s" {
			cspec.Cert = leafName("cli", p.KeyKind)
		}
	}
	// apply the deviation to the rogue's credentials
	spec := &sspec
	role := "srv"
	if rogue == "c" {
		spec, role = &cspec, "cli"
	}
	switch p.Dev {
	case "ip-name:none":
		// control: the server's certificate carries an iPAddress SAN for the address the client names
		cspec.ServerName, sspec.Cert = "10.0.0.2", "srv-ip"
	case "ip-name:wrong-name":
		// a certificate from the right CA for some other (DNS) name
		cspec.ServerName, sspec.Cert = "10.0.0.2", "srv-wrongname"
	case "ip-name:other-ip":
		// the client names another address than the one the certificate is for
		cspec.ServerName, sspec.Cert = "10.0.0.77", "srv-ip"
	case "ack-instead-of-auth":
		// credentials stay genuine; the deviation is in what gets sent (see below)
		cspec.Cert = leafName("cli", p.KeyKind)
	case "wrong-ca":
		spec.Cert = role + "-rogue"
	case "wrong-name":
		spec.Cert = "srv-wrongname"
	case "wrong-eku":
		// right CA, right name, valid - but the certificate is only good for the OTHER role
		spec.Cert = map[string]string{"srv": "srv-clionly", "cli": "cli-srvonly"}[role]
	case "expired":
		spec.Cert = role + "-expired"
	case "not-yet-valid":
		spec.Cert = "srv-future"
	case "victim-leaf-behind-own-cert":
		// the rogue presents its own self-signed, CA-flagged certificate first (it holds that key and
		// signs with it) followed by the victim's genuine, publicly known chain
		victim := certPool.Leaf[spec.Cert]
		chain := append([][]byte{certPool.CA2.Raw}, victim.Certificate...)
		spec.Cert = ""
		env.Extra[rogue] = append(env.Extra[rogue], dtls.WithCertificates(tls.Certificate{Certificate: chain, PrivateKey: certPool.CA2Key()}))
	case "scheme-confusion":
		// the rogue knows only the victim's public ECDSA chain. It announces the Ed25519 scheme (its
		// signer claims an Ed25519 public key, so the library picks that scheme) and answers with an
		// ECDSA signature forged for the hash value zero.
		base := certPool.Leaf[spec.Cert]
		leaf, _ := x509.ParseCertificate(base.Certificate[0])
		vpub, _ := leaf.PublicKey.(*ecdsa.PublicKey)
		epub, _, _ := ed25519.GenerateKey(zeroReader{})
		spec.Cert = ""
		env.Extra[rogue] = append(env.Extra[rogue], dtls.WithCertificates(tls.Certificate{
			Certificate: base.Certificate, Leaf: base.Leaf,
			PrivateKey: &rogueSigner{pub: epub, mode: p.Dev, forged: forgeECDSAZero(vpub)},
		}))
	case "other-key", "sig-flip", "sig-other-digest", "empty-chain":
		base := certPool.Leaf[spec.Cert]
		inner, _ := base.PrivateKey.(crypto.Signer)
		crt := tls.Certificate{Certificate: base.Certificate, Leaf: base.Leaf}
		switch p.Dev {
		case "other-key":
			other, _ := certPool.Leaf[role+"-rogue"].PrivateKey.(crypto.Signer)
			if p.KeyKind != "ecdsa" { // same key type as the chain claims, different key
				other, _ = certPool.Leaf[map[string]string{"srv": "cli", "cli": "srv"}[role]+"-"+p.KeyKind].PrivateKey.(crypto.Signer)
			}
			crt.PrivateKey = &rogueSigner{pub: other.Public(), inner: other}
		case "empty-chain":
			crt.Certificate = [][]byte{}
			crt.Leaf = nil
			crt.PrivateKey = inner
		default:
			crt.PrivateKey = &rogueSigner{pub: inner.Public(), inner: inner, mode: p.Dev}
		}
		spec.Cert = ""
		env.Extra[rogue] = append(env.Extra[rogue], dtls.WithCertificates(crt))
	case "wrong-psk":
		spec.PSK = "another-pre-shared-key!!"
	case "wrong-identity":
		// the rogue presents an identity for which the honest side's lookup yields another key
		if rogue == "c" {
			cspec.PSKHint = "who-am-i"
			sspec.PSK = ""
			env.Extra["s"] = append(env.Extra["s"], dtls.WithPSK(func(hint []byte) ([]byte, error) {
				if string(hint) == "hint" {
					return []byte("verif-psk-0123456789"), nil
				}

				return []byte("key-of-somebody-else"), nil
			}), dtls.WithPSKIdentityHint([]byte("hint")))
		} else {
			spec.PSK = "another-pre-shared-key!!"
		}
	}
	n := NewSimNet(s, p.Rules)
	pair, err := NewPair(s, n, cspec, sspec, env)
	if err != nil {
		s.Probe("config-rejected:" + p.Dev)
		rc.Note("config-rejected", err.Error())

		return
	}
	defer pair.Teardown()
	if p.Dev == "ack-instead-of-auth" {
		// Byzantine client: its whole final flight is withheld; instead an ACK sealed under its
		// handshake keys acknowledges every record of the server's flight
		acked := false
		n.Rewrite = func(em *Emission) []byte {
			if em.Ep != "c" || len(em.Data) == 0 || em.Data[0]&0xe0 != 0x20 {
				return em.Data
			}
			if !acked {
				acked = true
				cst, _ := pair.Client.ConnectionState()
				suite := uint16(cst.CipherSuiteID)
				cw, cr := dtls.VerifTrafficSecrets(pair.Client)
				dec := NewDecoder13(suite, cr)
				var numbers [][2]uint64
				for _, sem := range n.EmitsOf("s") {
					recs, _ := ParseDatagram(sem.Data, 0)
					for _, r := range recs {
						if !r.Unified {
							numbers = append(numbers, [2]uint64{uint64(r.Epoch), r.Seq})

							continue
						}
						if e, _, _, sq, oerr := dec.Open(r); oerr == nil {
							numbers = append(numbers, [2]uint64{uint64(e), sq})
						}
					}
				}
				if sec, ok := cw[2]; ok && len(numbers) > 0 {
					body := []byte{byte(len(numbers) * 16 >> 8), byte(len(numbers) * 16)}
					for _, nn := range numbers {
						for k := 7; k >= 0; k-- {
							body = append(body, byte(nn[0]>>(8*k)))
						}
						for k := 7; k >= 0; k-- {
							body = append(body, byte(nn[1]>>(8*k)))
						}
					}
					keys, _ := NewKeys13(suite, sec)
					s.Fault("forged-handshake-ack")
					n.Inject(time.Millisecond, pair.CAddr, pair.SAddr, keys.Seal13(2, 0, nil, CTACK, body, 0))
				}
			}
			s.Fault("final-flight-withheld")

			return nil
		}
	}
	if p.Dev == "no-server-auth" || p.Dev == "cert-without-verify" {
		// Byzantine server scripted on refdtls; the real server of the pair never hears from the client
		rogue13 := NewRogue13(s, n, pair.SAddr, pair.CAddr)
		if p.Dev == "cert-without-verify" {
			// the victim's genuine, publicly known chain - and no proof of possession
			rogue13.Chain = certPool.Leaf[leafName("srv", p.KeyKind)].Certificate
		}
		n.Rewrite = func(em *Emission) []byte {
			if em.Ep == "c" {
				rogue13.OnClientDatagram(em)
			}

			return nil
		}
		pair.StartHandshakes(30 * time.Second)
		s.Run(func() bool { return pair.CHs.Done }, time.Minute)
		if rogue13.Note != "" {
			rc.Note("rogue13", rogue13.Note)
			s.Probe("rogue13-gave-up")
		}
		if rogue13.ClientFin {
			s.Probe("rogue13-saw-client-finished")
		}
		s.Probe("must-fail:" + p.Dev)
		if pair.CHs.Done && pair.CHs.Err == nil {
			rc.Violate(fmt.Sprintf("established-without-credential:v%d:%s:%s", p.Ver, p.Honest, p.Dev),
				"the honest client (verify=%v) reported a successful handshake with a scripted server that proved nothing (%s)", p.Verify, p.Dev)
		}

		return
	}
	pair.StartHandshakes(2 * time.Minute)
	s.Run(pair.BothDone, 3*time.Minute)
	honest := pair.CHs
	rogueHs := pair.SHs
	if p.Honest == "s" {
		honest, rogueHs = pair.SHs, pair.CHs
	}
	mustFail := c03MustFail(p)
	if mustFail && p.Honest == "s" && dtls.ClientAuthType(p.Policy) == dtls.VerifyClientCertIfGiven && !p.Callback {
		// "if given": a client may legitimately withhold a certificate the CertificateRequest
		// does not ask for; only a certificate that was actually presented must verify
		if st, ok := pair.Server.ConnectionState(); !ok || len(st.PeerCertificates) == 0 {
			mustFail = false
			s.Probe("verify-if-given:none-presented")
		}
	}
	if !mustFail {
		if (p.Dev == "none" || p.Dev == "ip-name:none") && !p.Callback && p.Rules.DropPm == 0 {
			if !(pair.BothOK()) {
				rc.Violate("control-failed", "no deviation, yet the handshake failed: client %v, server %v (oracle would be vacuous)", pair.CHs.Err, pair.SHs.Err)
			} else {
				s.Probe("control-ok")
			}
		}
		if honest.Done && honest.Err == nil {
			s.Probe("allowed-and-accepted")
		}

		return
	}
	s.Probe("must-fail:" + p.Dev)
	if honest.Done && honest.Err == nil {
		rc.Violate(fmt.Sprintf("established-without-credential:v%d:%s:%s", p.Ver, p.Honest, p.Dev),
			"the honest %s (verify=%v, client-auth policy %d, callback=%v) reported a successful handshake although the peer deviated: %s", map[string]string{"c": "client", "s": "server"}[p.Honest], p.Verify, p.Policy, p.Callback, p.Dev)

		return
	}
	// the rogue may believe it is connected: whatever it writes must never reach the honest application
	if rogueHs.Done && rogueHs.Err == nil {
		rd := pair.StartReader(p.Honest)
		_ = pair.WriteSync(rogue, []byte("payload-from-an-unauthenticated-peer"), 5*time.Second)
		s.Run(func() bool { return false }, 2*time.Second)
		if len(rd.Got) > 0 {
			rc.Violate("data-from-unauthenticated-peer", "the honest side's Read returned application data from a peer that failed authentication (%s)", p.Dev)

			return
		}
		s.Probe("rogue-thought-it-was-connected")
	}
}

func init() {
	Register(&Scenario{
		ID:        "C03",
		Counts:    c03Counts,
		Gen:       c03Gen,
		NewParams: func() any { return &C03Params{} },
		Run:       c03Run,
	})
}

// ---- resumption of a session whose client never authenticated --------------------------------

// fixedStore hands out one session for every key (the rogue client's "store").
type fixedStore struct{ sess dtls.Session }

func (f *fixedStore) Set([]byte, dtls.Session) error { return nil }
func (f *fixedStore) Get([]byte) (dtls.Session, error) {
	return dtls.Session{ID: append([]byte(nil), f.sess.ID...), Secret: append([]byte(nil), f.sess.Secret...)}, nil
}
func (f *fixedStore) Del([]byte) error { return nil }

// c03ResumeUnfinished: a rogue DTLS 1.2 client without the required certificate performs the key
// exchange and then goes silent - no Certificate, no CertificateVerify, no Finished - and, on a
// second connection, offers the session ID of that unfinished handshake for resumption. It knows
// the master secret (it took part in the key exchange); what it never did is authenticate. The
// rogue is assembled from the real library: a man in the middle removes Certificate,
// CertificateVerify and everything of epoch 1 from the first client's flight and renumbers the
// ClientKeyExchange into the gap; the second client's store hands out the session ID from the
// wire and the master secret from the first client's key log. Extended master secret is off so
// that the secret does not depend on a transcript the two halves of the rogue do not share (a
// rogue with its own stack has no such limitation).
func c03ResumeUnfinished(rc *RunCtx, p *C03Params) {
	s := rc.S
	cspec, sspec := certPair12(suiteECDSAGCM, "srv-ecdsa")
	cspec.VerifyPeer, cspec.UseRoots, cspec.ServerName = true, 1, ServerName
	cspec.Cert = "cli-ecdsa"
	cspec.EMS, sspec.EMS = 2, 2
	sspec.ClientAuth = p.Policy
	if p.Policy >= int(dtls.VerifyClientCertIfGiven) {
		sspec.UseRoots, sspec.VerifyPeer = 1, true
	}
	sspec.SkipHelloVerify = false
	sstore := NewSimStore(s, "sstore", 0)
	env := &Env{Stores: map[string]dtls.SessionStore{"sstore": sstore}, KeyLogs: map[string]*KeyLog{}, Extra: map[string][]dtls.Option{}}
	sspec.Store = "sstore"
	n := NewSimNet(s, p.Rules)
	pair, err := NewPairNamed(s, n, cspec, sspec, env, "c", "s")
	if err != nil {
		rc.Violate("harness", "config: %v", err)

		return
	}
	certSeq := -1
	n.Rewrite = func(em *Emission) []byte {
		if em.Ep != "c" {
			return em.Data
		}
		recs, perr := ParseDatagram(em.Data, 0)
		if perr != nil {
			return em.Data
		}
		var out []byte
		for _, r := range recs {
			if r.Epoch != 0 {
				continue // Finished: never sent
			}
			keep := true
			raw := append([]byte(nil), r.Raw...)
			if r.Type == CTHandshake {
				for _, f := range r.Hs {
					switch f.Type {
					case HTCertificate:
						if certSeq < 0 {
							certSeq = int(f.MsgSeq)
						}
						keep = false
					case HTCertificateVerify:
						keep = false
					case HTClientKeyExchange:
						if certSeq >= 0 && len(r.Hs) == 1 {
							putU16(raw[r.HdrLen+4:], certSeq)
						}
					}
				}
			}
			if keep {
				out = append(out, raw...)
			}
		}
		if len(out) == 0 {
			s.Fault("rogue-withholds-message")

			return nil
		}

		return out
	}
	pair.StartHandshakes(40 * time.Second)
	stored := func() bool { return len(sstore.Keys()) > 0 }
	s.Run(func() bool { return stored() || pair.SHs.Done }, 20*time.Second)
	if !stored() {
		// the server kept nothing from the unfinished handshake: nothing to resume from
		s.Probe("unfinished-handshake-left-no-session")
		pair.Teardown()

		return
	}
	s.Probe("unfinished-handshake-left-a-session")
	// what the rogue knows: the session ID from the ServerHello on the wire, the master secret it computed
	col := NewHsCollector()
	for _, em := range n.Emits {
		col.Feed(em, 0)
	}
	shs, chs := col.Of("s", HTServerHello), col.Of("c", HTClientHello)
	if len(shs) == 0 || len(chs) == 0 {
		rc.Violate("harness", "hellos not on the wire")
		pair.Teardown()

		return
	}
	sh, _ := ParseServerHello(shs[len(shs)-1].Body)
	ch, _ := ParseClientHello(chs[len(chs)-1].Body)
	ms := env.KeyLogs["c"].Master(ch.Random)
	if len(ms) == 0 || len(sh.SessionID) == 0 {
		rc.Note("rogue-lacks-material", fmt.Sprintf("master secrets %d, session id %d bytes", len(ms), len(sh.SessionID)))
		pair.Teardown()

		return
	}
	// second connection while the first is still waiting for the client's Finished
	c2, s2 := cspec, sspec
	c2.Cert = ""
	c2.Store = "rogue"
	env2 := &Env{Stores: map[string]dtls.SessionStore{"sstore": sstore, "rogue": &fixedStore{dtls.Session{ID: sh.SessionID, Secret: ms[len(ms)-1]}}}, Extra: map[string][]dtls.Option{}}
	n2 := NewSimNet(s, NetRules{})
	pair2, err := NewPairNamed(s, n2, c2, s2, env2, "c2", "s2")
	if err != nil {
		rc.Violate("harness", "config: %v", err)
		pair.Teardown()

		return
	}
	pair2.StartHandshakes(30 * time.Second)
	s.Run(pair2.BothDone, time.Minute)
	abbreviated := true
	for _, em := range n2.Emits {
		if recs, perr := ParseDatagram(em.Data, 0); perr == nil {
			for _, r := range recs {
				for _, f := range r.Hs {
					if f.Type == HTServerKeyExchange || f.Type == HTCertificateRequest {
						abbreviated = false
					}
				}
			}
		}
	}
	if abbreviated {
		s.Probe("server-resumed-the-unfinished-session")
	}
	mustFail := dtls.ClientAuthType(p.Policy) == dtls.RequireAnyClientCert || dtls.ClientAuthType(p.Policy) == dtls.RequireAndVerifyClientCert
	if pair2.SHs.Done && pair2.SHs.Err == nil && mustFail {
		rc.Violate(fmt.Sprintf("established-without-credential:v12:s:%s", p.Dev), "server with client-auth policy %d reports a successful (abbreviated=%v) handshake with a client that never presented a certificate: it resumed session %x, stored during an earlier handshake in which the client sent ClientKeyExchange and then nothing - no Certificate, no CertificateVerify, no Finished", p.Policy, abbreviated, sh.SessionID)
	} else if mustFail {
		s.Probe("must-fail:" + p.Dev)
	} else {
		s.Probe("may-succeed:" + p.Dev)
	}
	pair2.Teardown()
	pair.Teardown()
}

// c03Expiry: the peer's certificate is valid during a first connection and has expired when, a
// quarter of a virtual hour later, the same peer connects again with the same chain: the first
// connection is the control (it must succeed), the second must fail. Whatever an endpoint
// remembers from the first validation, validity is a statement about now.
func c03Expiry(rc *RunCtx, p *C03Params) {
	s := rc.S
	var cspec, sspec EpSpec
	if p.Ver == 12 {
		cspec, sspec = certPair12(suiteECDSAGCM, "srv-ecdsa")
	} else {
		cspec, sspec = pair13(suite13AES128)
	}
	rc.Note("proto", protoTag(cspec, sspec))
	cspec.VerifyPeer, cspec.UseRoots, cspec.ServerName = true, 1, ServerName
	if p.Honest == "c" {
		sspec.Cert = "srv-short"
	} else {
		cspec.Cert = "cli-short"
		sspec.ClientAuth, sspec.UseRoots, sspec.VerifyPeer = p.Policy, 1, true
	}
	run := func(tag string) (*Pair, bool) {
		n := NewSimNet(s, p.Rules)
		pair, err := NewPairNamed(s, n, cspec, sspec, &Env{}, "c"+tag, "s"+tag)
		if err != nil {
			rc.Violate("harness", "config: %v", err)

			return nil, false
		}
		pair.StartHandshakes(30 * time.Second)
		s.Run(pair.BothDone, time.Minute)

		return pair, true
	}
	p1, ok := run("1")
	if !ok {
		return
	}
	first := p1.BothOK()
	p1.Teardown()
	if !first {
		rc.Note("control-failed", fmt.Sprintf("c=%v s=%v", p1.CHs.Err, p1.SHs.Err))
		s.Probe("expiry-control-failed")

		return
	}
	s.Probe("control-ok")
	s.Run(func() bool { return false }, 15*time.Minute)
	p2, ok := run("2")
	if !ok {
		return
	}
	hs := p2.CHs
	if p.Honest == "s" {
		hs = p2.SHs
	}
	if hs.Done && hs.Err == nil {
		rc.Violate(fmt.Sprintf("established-without-credential:v%d:%s:%s", p.Ver, p.Honest, p.Dev), "a certificate that was valid during a first connection and expired five virtual minutes before the second one was accepted again by the honest %s (policy %d)", map[string]string{"c": "client", "s": "server"}[p.Honest], p.Policy)
	} else {
		s.Probe("must-fail:" + p.Dev)
	}
	p2.Teardown()
}

// c03ResumeCallback: a first connection fills both session stores; on the second connection the
// honest side has installed a VerifyConnection callback that refuses every peer (an application
// that has withdrawn its authorisation since). Full or abbreviated, the honest side must not
// report success: the callback is policy, and it is asked on every connection.
func c03ResumeCallback(rc *RunCtx, p *C03Params) {
	s := rc.S
	var cspec, sspec EpSpec
	if p.Auth == "psk" {
		cspec, sspec = pskPair(suitePSKGCM)
	} else {
		cspec, sspec = certPair12(suiteECDSAGCM, "srv-ecdsa")
	}
	rc.Note("proto", "dtls12")
	certCB := p.Dev == "resumed:peer-certificate-callback-rejects"
	if certCB {
		cspec.Cert = "cli-ecdsa"
		sspec.ClientAuth = p.Policy
		if p.Policy >= int(dtls.VerifyClientCertIfGiven) {
			sspec.UseRoots, sspec.VerifyPeer = 1, true
		}
	}
	cspec.Store, sspec.Store = "cstore", "sstore"
	stores := map[string]dtls.SessionStore{"cstore": NewSimStore(s, "cstore", 0), "sstore": NewSimStore(s, "sstore", 0)}
	n1 := NewSimNet(s, NetRules{})
	p1, err := NewPairNamed(s, n1, cspec, sspec, &Env{Stores: stores}, "c1", "s1")
	if err != nil {
		rc.Violate("harness", "config: %v", err)

		return
	}
	ok1 := p1.Establish(time.Minute)
	p1.Teardown()
	if !ok1 {
		rc.Note("control-failed", "")

		return
	}
	s.Probe("control-ok")
	asked := 0
	env2 := &Env{Stores: stores, Extra: map[string][]dtls.Option{}}
	name := map[string]string{"c": "c2", "s": "s2"}[p.Honest]
	if certCB {
		env2.Extra[name] = append(env2.Extra[name], dtls.WithVerifyPeerCertificate(func([][]byte, [][]*x509.Certificate) error {
			asked++

			return errors.New("verif: this client certificate has been revoked")
		}))
	} else {
		env2.Extra[name] = append(env2.Extra[name], dtls.WithVerifyConnection(func(*dtls.State) error {
			asked++

			return errors.New("verif: the application no longer authorises this peer")
		}))
	}
	n2 := NewSimNet(s, p.Rules)
	p2, err := NewPairNamed(s, n2, cspec, sspec, env2, "c2", "s2")
	if err != nil {
		rc.Violate("harness", "config: %v", err)

		return
	}
	p2.StartHandshakes(30 * time.Second)
	s.Run(p2.BothDone, time.Minute)
	abbreviated := true
	for _, em := range n2.Emits {
		if recs, perr := ParseDatagram(em.Data, 0); perr == nil {
			for _, r := range recs {
				for _, f := range r.Hs {
					if f.Type == HTServerHelloDone {
						abbreviated = false
					}
				}
			}
		}
	}
	hs := p2.CHs
	if p.Honest == "s" {
		hs = p2.SHs
	}
	if hs.Done && hs.Err == nil {
		rc.Violate(fmt.Sprintf("established-without-credential:v12:%s:%s", p.Honest, p.Dev), "the honest %s reports a successful handshake (abbreviated=%v) although its %s callback refuses every peer (client-auth policy %d); the callback was asked %d times on this connection", map[string]string{"c": "client", "s": "server"}[p.Honest], abbreviated, map[bool]string{true: "VerifyPeerCertificate", false: "VerifyConnection"}[certCB], p.Policy, asked)
	} else {
		s.Probe("must-fail:" + p.Dev)
	}
	if abbreviated {
		s.Probe("second-connection-was-abbreviated")
	}
	p2.Teardown()
}
