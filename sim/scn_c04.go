package verifsim

import (
	"bytes"
	"fmt"
	"math/rand/v2"
	"time"

	dtls "github.com/pion/dtls/v3"
)

// C04: tampering with any handshake message prevents completion.

type C04Params struct {
	Ver    int    `json:"ver"` // 12 | 13 | 1213 (both endpoints allow DTLS 1.2 and 1.3)
	Kx     string `json:"kx"`  // cert | psk | ecdhepsk
	EMS    int    `json:"ems"` // both sides: 0 request, 1 require, 2 disable
	Resume bool   `json:"resume"`
	HV     bool   `json:"hv"`
	CAuth  bool   `json:"client_auth"`
	From   string `json:"from"` // sender of the altered message: c | s
	Type   int    `json:"type"` // handshake type altered
	Mut    string `json:"mut"`
	Arg    int    `json:"arg"`
	// FirstOnly: only the cookie-less first ClientHello is rewritten (it is outside the
	// Finished hash; the second ClientHello must equal it, so the server must notice)
	FirstOnly bool `json:"first_only,omitempty"`
	// SecondOnly: only the ClientHello that echoes the cookie is rewritten; the first one arrives intact
	SecondOnly bool `json:"second_only,omitempty"`
	// Sha384 (DTLS 1.3): TLS_AES_256_GCM_SHA384 on both sides - digests of 48 bytes wherever the
	// transcript, the synthetic message_hash after a HelloRetryRequest and Finished use the hash
	Sha384 bool `json:"sha384,omitempty"`
}

type c04Target struct {
	from string
	typ  int
}

func c04Targets(ver int, kx string, cauth, resume bool) []c04Target {
	if ver == 13 {
		return []c04Target{{"c", HTClientHello}, {"s", HTServerHello}}
	}
	if resume {
		return []c04Target{{"c", HTClientHello}, {"s", HTServerHello}}
	}
	t := []c04Target{{"c", HTClientHello}, {"s", HTServerHello}, {"s", HTServerHelloDone}, {"c", HTClientKeyExchange}}
	if kx != "psk" {
		t = append(t, c04Target{"s", HTServerKeyExchange})
	}
	if kx == "cert" {
		t = append(t, c04Target{"s", HTCertificate})
		if cauth {
			t = append(t, c04Target{"s", HTCertificateRequest}, c04Target{"c", HTCertificate}, c04Target{"c", HTCertificateVerify})
		}
	}

	return t
}

var c04HelloMuts = []string{"random-bit", "sessionid-bit", "suite-remove", "suite-reorder", "suite-append", "suite-change", "ext-strip", "ext-dup", "ext-alter", "ext-append", "version-byte", "body-bit",
	// alterations a lenient decoder normalises away or a server exempts from its comparison of the two
	// ClientHellos: only the transcript (hashed as received) stands between them and success
	"pad-append", "comp-extra", "suite-odd-byte"}

func c04Counts(tier string) (int, int) {
	if tier == "thorough" {
		return 0, 100000000
	}

	return 0, 10000000
}

func c04Gen(r *rand.Rand, tier string, idx int) any {
	p := &C04Params{Ver: []int{12, 12, 12, 13, 12, 12, 13, 1213}[r.IntN(8)]}
	if p.Ver == 1213 {
		// version downgrade: the ClientHello of a client that allows 1.2 and 1.3 is made to look like
		// a 1.2-only hello (or has one extension stripped), in every copy or in the first one only
		p.Kx, p.HV, p.From, p.Type = "cert", true, "c", HTClientHello
		p.Mut = []string{"strip-13", "strip-13", "ext-strip", "version-byte"}[r.IntN(4)]
		p.Arg = r.IntN(1 << 20)
		p.FirstOnly = r.IntN(2) == 0

		return p
	}
	if p.Ver == 12 {
		p.Kx = []string{"cert", "cert", "psk", "ecdhepsk"}[r.IntN(4)]
		p.EMS = r.IntN(3)
		p.Resume = r.IntN(4) == 0
		p.HV = r.IntN(2) == 0
		p.CAuth = p.Kx == "cert" && r.IntN(2) == 0
	} else {
		p.Kx = "cert"
		p.HV = r.IntN(2) == 0
		p.Sha384 = r.IntN(3) == 0
	}
	ts := c04Targets(p.Ver, p.Kx, p.CAuth, p.Resume)
	t := ts[r.IntN(len(ts))]
	p.From, p.Type = t.from, t.typ
	if p.Type == HTClientHello || p.Type == HTServerHello {
		p.Mut = c04HelloMuts[r.IntN(len(c04HelloMuts))]
	} else {
		p.Mut = []string{"body-bit", "body-bit", "append-byte", "last-byte"}[r.IntN(4)]
	}
	p.Arg = r.IntN(1 << 20)
	if p.Type == HTClientHello && p.HV && r.IntN(3) == 0 {
		p.FirstOnly = true
	} else if p.Type == HTClientHello && p.HV && r.IntN(3) == 0 {
		p.SecondOnly = true
	}

	return p
}

func rebuildHello(b []byte, client bool, f func(h *Hello, raw *helloRaw)) []byte {
	raw, ok := splitHello(b, client)
	if !ok {
		return b
	}
	var h *Hello
	if client {
		h, _ = ParseClientHello(b)
	} else {
		h, _ = ParseServerHello(b)
	}
	if h == nil {
		return b
	}
	f(h, raw)

	return raw.join(client)
}

// helloRaw keeps the hello's variable-length fields as byte strings.
type helloRaw struct {
	ver, random, sid, cookie, suites, comp []byte
	exts                                   []Ext
	hasExts                                bool
}

func splitHello(b []byte, client bool) (*helloRaw, bool) {
	r := &rd{b: b}
	h := &helloRaw{}
	h.ver = r.n(2)
	h.random = r.n(32)
	h.sid = r.vec8()
	if client {
		h.cookie = r.vec8()
		h.suites = r.vec16()
		h.comp = r.vec8()
	} else {
		h.suites = r.n(2)
		h.comp = r.n(1)
	}
	if r.err {
		return nil, false
	}
	if len(r.b) >= 2 {
		h.hasExts = true
		h.exts = parseExts(r.vec16())
	}

	return h, true
}

func (h *helloRaw) join(client bool) []byte {
	out := append([]byte(nil), h.ver...)
	out = append(out, h.random...)
	out = append(out, byte(len(h.sid)))
	out = append(out, h.sid...)
	if client {
		out = append(out, byte(len(h.cookie)))
		out = append(out, h.cookie...)
		out = append(out, byte(len(h.suites)>>8), byte(len(h.suites)))
		out = append(out, h.suites...)
		out = append(out, byte(len(h.comp)))
		out = append(out, h.comp...)
	} else {
		out = append(out, h.suites...)
		out = append(out, h.comp...)
	}
	if h.hasExts {
		var eb []byte
		for _, e := range h.exts {
			eb = append(eb, byte(e.Type>>8), byte(e.Type), byte(len(e.Body)>>8), byte(len(e.Body)))
			eb = append(eb, e.Body...)
		}
		out = append(out, byte(len(eb)>>8), byte(len(eb)))
		out = append(out, eb...)
	}

	return out
}

// c04Mutate is the man in the middle's deterministic rewriting function.
func c04Mutate(body []byte, typ int, mut string, arg int) []byte {
	client := typ == HTClientHello
	cp := func() []byte { return append([]byte(nil), body...) }
	switch mut {
	case "body-bit":
		if len(body) == 0 {
			return append(cp(), 0)
		}
		out := cp()
		bit := arg % (8 * len(out))
		out[bit/8] ^= 1 << (bit % 8)

		return out
	case "append-byte":
		return append(cp(), byte(arg))
	case "last-byte":
		if len(body) == 0 {
			return append(cp(), 1)
		}
		out := cp()
		out[len(out)-1] ^= 0x01

		return out
	case "random-bit":
		out := cp()
		if len(out) >= 34 {
			out[2+4+arg%28] ^= 1 << (arg % 8)
		}

		return out
	case "version-byte":
		out := cp()
		if len(out) >= 2 {
			out[1] ^= 0x01
		}

		return out
	}
	return rebuildHello(body, client, func(h *Hello, raw *helloRaw) {
		switch mut {
		case "sessionid-bit":
			if len(raw.sid) > 0 {
				raw.sid = append([]byte(nil), raw.sid...)
				raw.sid[arg%len(raw.sid)] ^= 0x20
			}
		case "suite-remove":
			if client && len(raw.suites) >= 4 {
				k := (arg % (len(raw.suites) / 2)) * 2
				raw.suites = append(append([]byte(nil), raw.suites[:k]...), raw.suites[k+2:]...)
			}
		case "suite-reorder":
			if client && len(raw.suites) >= 4 {
				s := append([]byte(nil), raw.suites...)
				s[0], s[1], s[2], s[3] = s[2], s[3], s[0], s[1]
				raw.suites = s
			}
		case "suite-append":
			if client {
				raw.suites = append(append([]byte(nil), raw.suites...), 0xc0, 0xae)
			}
		case "suite-change":
			if !client && len(raw.suites) == 2 {
				alt := map[uint16]uint16{0xc02b: 0xc0ac, 0xc0ac: 0xc02b, 0x00a8: 0xc0a8, 0xc0a8: 0x00a8, 0x1301: 0x1303, 0x1303: 0x1301, 0x1302: 0x1301, 0xc037: 0x00ae}
				cur := uint16(raw.suites[0])<<8 | uint16(raw.suites[1])
				if a, ok := alt[cur]; ok {
					raw.suites = []byte{byte(a >> 8), byte(a)}
				} else {
					raw.suites = []byte{raw.suites[0], raw.suites[1] ^ 1}
				}
			}
		case "strip-13": // what a DTLS 1.2-only client would not send
			var keep []Ext
			for _, e := range raw.exts {
				if e.Type != ExtSupportedVers && e.Type != ExtKeyShare && e.Type != ExtCookie13 && e.Type != 45 /* psk_key_exchange_modes */ {
					keep = append(keep, e)
				}
			}
			raw.exts = keep
		case "ext-strip":
			if len(raw.exts) > 0 {
				k := arg % len(raw.exts)
				raw.exts = append(append([]Ext(nil), raw.exts[:k]...), raw.exts[k+1:]...)
			}
		case "ext-dup":
			if len(raw.exts) > 0 {
				raw.exts = append(append([]Ext(nil), raw.exts...), raw.exts[arg%len(raw.exts)])
			}
		case "ext-alter":
			if len(raw.exts) > 0 {
				es := append([]Ext(nil), raw.exts...)
				k := arg % len(es)
				if len(es[k].Body) > 0 {
					nb := append([]byte(nil), es[k].Body...)
					nb[(arg/7)%len(nb)] ^= 1 << (arg % 8)
					es[k].Body = nb
				} else {
					es[k].Type ^= 0x4000
				}
				raw.exts = es
			}
		case "pad-append":
			if client {
				raw.hasExts = true
				raw.exts = append(append([]Ext(nil), raw.exts...), Ext{21, make([]byte, 1+arg%16)})
			}
		case "comp-extra":
			if client {
				raw.comp = append(append([]byte(nil), raw.comp...), 1)
			}
		case "suite-odd-byte":
			if client {
				raw.suites = append(append([]byte(nil), raw.suites...), 0x13)
			}
		case "ext-append":
			raw.hasExts = true
			raw.exts = append(append([]Ext(nil), raw.exts...), Ext{0xfa00 | uint16(arg&0xff), []byte{1}})
		}
	})
}

func c04Run(rc *RunCtx, params any) {
	p := params.(*C04Params)
	s := rc.S
	rc.R.Class = fmt.Sprintf("v%d/%s/%s/%s", p.Ver, p.Kx, HsName(byte(p.Type)), p.Mut)
	var cspec, sspec EpSpec
	switch {
	case p.Ver == 1213:
		v, _ := variantByName("dual-13")
		cspec, sspec = v.C, v.S
		cspec.MTU, sspec.MTU = 3000, 3000 // keeps the ClientHello with its DTLS 1.3 key shares in one record
	case p.Ver == 13:
		cspec, sspec = pair13(suite13AES128)
		cspec.Suites, sspec.Suites = []uint16{suite13AES128, suite13ChaCha}, []uint16{suite13AES128, suite13ChaCha}
		cspec.Curves, sspec.Curves = []uint16{0x001d, 0x0017}, []uint16{0x001d, 0x0017} // keeps the ClientHello in one datagram
		if p.Sha384 {
			cspec.Suites, sspec.Suites = []uint16{suite13AES256}, []uint16{suite13AES256}
		}
	case p.Kx == "cert":
		cspec, sspec = certPair12(suiteECDSAGCM, "srv-ecdsa")
		cspec.Suites, sspec.Suites = []uint16{suiteECDSAGCM, suiteECDSACCM, suiteECDSAChaCha}, []uint16{suiteECDSACCM, suiteECDSAGCM, suiteECDSAChaCha}
		if p.CAuth {
			cspec.Cert, sspec.ClientAuth, sspec.UseRoots, sspec.VerifyPeer = "cli-ecdsa", int(dtls.RequireAndVerifyClientCert), 1, true
		}
	case p.Kx == "psk":
		cspec, sspec = pskPair(suitePSKGCM)
		cspec.Suites, sspec.Suites = []uint16{suitePSKGCM, suitePSKCCM8}, []uint16{suitePSKCCM8, suitePSKGCM}
	default:
		cspec, sspec = pskPair(suiteECDHEPSKCBC)
	}
	cspec.ALPN, sspec.ALPN = []string{"h3", "x"}, []string{"x", "h3"}
	sspec.SkipHelloVerify = !p.HV
	if p.Ver == 12 {
		cspec.EMS, sspec.EMS = p.EMS, p.EMS
	}
	rc.Note("proto", protoTag(cspec, sspec))
	env := &Env{Stores: map[string]dtls.SessionStore{"cstore": NewSimStore(s, "cstore", 0), "sstore": NewSimStore(s, "sstore", 0)}}
	if p.Resume {
		cspec.Store, sspec.Store = "cstore", "sstore"
		n0 := NewSimNet(s, NetRules{})
		p0, err := NewPairNamed(s, n0, cspec, sspec, env, "c0", "s0")
		if err != nil {
			rc.Violate("harness", "config: %v", err)

			return
		}
		okp := p0.Establish(time.Minute)
		p0.Teardown()
		if !okp {
			rc.Note("prelude-failed", "")

			return
		}
	}
	n := NewSimNet(s, NetRules{})
	pair, err := NewPair(s, n, cspec, sspec, env)
	if err != nil {
		rc.Violate("harness", "config: %v", err)

		return
	}
	defer pair.Teardown()
	altered, fragmented, noop := 0, 0, 0
	var lastCH []byte
	n.Rewrite = func(em *Emission) []byte {
		if em.Ep != p.From {
			return em.Data
		}
		recs, perr := ParseDatagram(em.Data, 0)
		if perr != nil {
			return em.Data
		}
		var out []byte
		for _, r := range recs {
			if r.Unified || r.Type != CTHandshake || r.Epoch != 0 || len(r.Hs) == 0 {
				out = append(out, r.Raw...)

				continue
			}
			var body []byte
			for _, f := range r.Hs {
				fb := f.Body
				total, off := int(f.Length), int(f.Off)
				skip := false
				if (p.FirstOnly || p.SecondOnly) && int(f.Type) == HTClientHello && f.FLen == f.Length {
					if h, herr := ParseClientHello(f.Body); herr == nil {
						_, has13Cookie := h.Ext(ExtCookie13)
						skip = len(h.Cookie) > 0 || has13Cookie
						if p.SecondOnly {
							skip = !skip
						}
					}
				}
				if int(f.Type) == p.Type && !skip {
					if f.FLen != f.Length || f.Off != 0 {
						fragmented++
					} else if sh, herr := ParseServerHello(f.Body); p.Type == HTServerHello && herr == nil && sh.IsHRR && p.Mut != "body-bit" && false {
						_ = sh
					} else {
						if p.Type == HTClientHello {
							lastCH = f.Body
						}
						nb := c04Mutate(f.Body, p.Type, p.Mut, p.Arg)
						if bytes.Equal(nb, f.Body) {
							noop++
						} else {
							altered++
							fb, total = nb, len(nb)
						}
					}
				}
				h := make([]byte, 12)
				h[0] = f.Type
				putU24(h[1:], total)
				putU16(h[4:], int(f.MsgSeq))
				putU24(h[6:], off)
				putU24(h[9:], len(fb))
				body = append(body, h...)
				body = append(body, fb...)
			}
			hdr := append([]byte(nil), r.Raw[:11]...)
			hdr = append(hdr, byte(len(body)>>8), byte(len(body)))
			out = append(out, hdr...)
			out = append(out, body...)
		}

		return out
	}
	// the link is loss-free: a handshake that can complete does so within a few round trips
	pair.StartHandshakes(12 * time.Second)
	s.Run(pair.BothDone, 15*time.Second)
	switch {
	case fragmented > 0:
		rc.Note("target-fragmented", "")
		s.Probe("skipped:target-fragmented")

		return
	case altered == 0:
		s.Probe("skipped:mutation-was-a-noop-or-target-never-sent")

		return
	}
	rc.R.NonTriv = true
	s.Fault("handshake-message-rewritten")
	s.Probe("altered:" + HsName(byte(p.Type)))
	cOK := pair.CHs.Done && pair.CHs.Err == nil
	sOK := pair.SHs.Done && pair.SHs.Err == nil
	if cOK || sOK {
		who := "client"
		if sOK && !cOK {
			who = "server"
		} else if sOK && cOK {
			who = "both"
		}
		scope := ""
		if p.FirstOnly {
			scope = ":first-hello-only"
		}
		if p.SecondOnly {
			scope = ":second-hello-only"
		}
		mutName := p.Mut
		if p.Mut == "pad-append" && p.Ver == 12 {
			mutName = "ext-append" // for DTLS 1.2 a padding extension is an appended extension like any other (F12 when only the first hello carries it)
		}
		if p.Mut == "body-bit" && p.Type == HTClientHello && lastCH != nil {
			if parts, okp := locateCH(lastCH); okp && (p.Arg%(8*len(lastCH)))/8 >= parts.extOff {
				mutName = "body-bit@ext"
			} else {
				mutName = "body-bit@fixed"
			}
		}
		if p.Ver == 1213 && cOK && sOK {
			if v := dtls.VerifSessionOf(pair.Client).Version; v == 0xfefd {
				scope += ":downgraded-to-1.2"
			}
		}
		if p.FirstOnly && cOK && sOK && !p.Resume && p.Ver != 1213 {
			// did the rewriting steer what was negotiated? an untampered handshake of the same two
			// configurations is the yardstick
			scope += ":" + c04Effect(rc, pair, cspec, sspec)
		}
		rc.Violate(fmt.Sprintf("completed-despite-tampering:v%d:%s:%s:%s:ems%d:resume=%v%s", p.Ver, who, HsName(byte(p.Type)), mutName, p.EMS, p.Resume, scope),
			"every copy of the %s sent by %s was rewritten in transit (%s, arg %d; %d copies altered), yet %s reported a successful handshake (kx=%s, EMS policy %d, resumed=%v, hello-verify=%v)", HsName(byte(p.Type)), p.From, p.Mut, p.Arg, altered, who, p.Kx, p.EMS, p.Resume, p.HV)
	}
}

// c04View is what a completed handshake negotiated, as both endpoints and the wire show it.
func c04View(pair *Pair) string {
	cs, _ := pair.Client.ConnectionState()
	ss, _ := pair.Server.ConnectionState()
	cv, sv := dtls.VerifSessionOf(pair.Client), dtls.VerifSessionOf(pair.Server)
	curve := uint16(0)
	col := NewHsCollector()
	for _, em := range pair.Net.Emits {
		col.Feed(em, 0)
	}
	if skes := col.Of(pair.SName, HTServerKeyExchange); len(skes) > 0 {
		curve, _ = ServerKeyExchangeCurve(skes[len(skes)-1].Body, pair.SSpec.PSK != "")
	}

	return fmt.Sprintf("suite=%04x/%04x alpn=%q/%q ems=%v/%v curve=%04x", uint16(cs.CipherSuiteID), uint16(ss.CipherSuiteID), cs.NegotiatedProtocol, ss.NegotiatedProtocol, cv.ExtendedMasterSec, sv.ExtendedMasterSec, curve)
}

// c04Effect compares the session the tampered handshake produced with the session an untampered
// handshake of the same configurations produces: "steered" if they differ, "no-effect" otherwise.
func c04Effect(rc *RunCtx, tampered *Pair, cspec, sspec EpSpec) string {
	got := c04View(tampered)
	n := NewSimNet(rc.S, NetRules{})
	ctl, err := NewPairNamed(rc.S, n, cspec, sspec, &Env{}, "cc", "sc")
	if err != nil {
		return "effect-unknown"
	}
	defer ctl.Teardown()
	if !ctl.Establish(30 * time.Second) {
		return "effect-unknown"
	}
	if want := c04View(ctl); want != got {
		rc.Note("steered", "untampered: "+want+" | tampered: "+got)

		return "steered"
	}

	return "no-effect"
}

func init() {
	Register(&Scenario{
		ID:        "C04",
		Counts:    c04Counts,
		Gen:       c04Gen,
		NewParams: func() any { return &C04Params{} },
		Run:       c04Run,
	})
}
