package verifsim

import (
	"bytes"
	"fmt"
	"math/rand/v2"
	"time"

	dtls "github.com/pion/dtls/v3"
)

// C05: Read returns only what the peer wrote; forgeries vanish.

type C05Params struct {
	Cfg     string `json:"cfg"`
	Dir     string `json:"dir"` // c2s | s2c
	Sizes   []int  `json:"sizes"`
	Mutants int    `json:"mutants"` // per record
	After   bool   `json:"after"`   // also inject mutants after the genuine record
	Splice  bool   `json:"splice"`  // records of a parallel session with the same configuration
	// ReadBuf: size of the buffer the receiving application passes to Read (0 = 16384). A payload
	// that does not fit may be refused with an error; it is never returned in part.
	ReadBuf int `json:"read_buf,omitempty"`
}

func c05Counts(tier string) (int, int) {
	if tier == "thorough" {
		return 0, 100000000
	}

	return 0, 10000000
}

func c05Gen(r *rand.Rand, tier string, idx int) any {
	ds := DataCfgs()
	p := &C05Params{Cfg: ds[idx%len(ds)].Name, Dir: []string{"c2s", "s2c"}[r.IntN(2)], Mutants: 20 + r.IntN(60), After: r.IntN(2) == 0, Splice: r.IntN(4) == 0}
	if r.IntN(5) == 0 {
		p.ReadBuf = []int{1, 16, 40, 255, 1000}[r.IntN(5)]
	}
	n := 1 + r.IntN(3)
	for i := 0; i < n; i++ {
		p.Sizes = append(p.Sizes, []int{1, 2, 15, 16, 17, 31, 32, 33, 64, 255, 256, 1000, 1187, 1188, 4000, 8000}[r.IntN(16)])
	}

	return p
}

type c05Session struct {
	pair  *Pair
	net   *SimNet
	ref12 *Ref12
	dec13 *Decoder13
	suite uint16
}

// newC05Session establishes a pair with key material for the reference model.
func newC05Session(rc *RunCtx, cfg DataCfg, cname, sname string) *c05Session {
	s := rc.S
	env := &Env{KeyLogs: map[string]*KeyLog{}}
	n := NewSimNet(s, NetRules{})
	pair, err := NewPairNamed(s, n, cfg.C, cfg.S, env, cname, sname)
	if err != nil {
		rc.Violate("harness", "config: %v", err)

		return nil
	}
	if !pair.Establish(time.Minute) {
		rc.Violate("harness-establish", "clean handshake failed: c=%v s=%v", pair.CHs.Err, pair.SHs.Err)
		pair.Teardown()

		return nil
	}
	s.Run(func() bool { return false }, 3*time.Second)
	out := &c05Session{pair: pair, net: n}
	cst, _ := pair.Client.ConnectionState()
	out.suite = uint16(cst.CipherSuiteID)

	return out
}

// refFor builds the reference decoder for records sent by `from` (after the session wrote something).
func (cs *c05Session) refFor(rc *RunCtx, cfg DataCfg, from string) bool {
	if cfg.C.MaxVer == 13 {
		conn := cs.pair.ConnOf(from)
		w, _ := dtls.VerifTrafficSecrets(conn)
		cs.dec13 = NewDecoder13(cs.suite, w)

		return true
	}
	col := NewHsCollector()
	for _, em := range cs.net.Emits {
		cid := len(cfg.S.CIDOf())
		if em.Ep == cs.pair.SName {
			cid = len(cfg.C.CIDOf())
		}
		col.Feed(em, cid)
	}
	chs, shs := col.Of(cs.pair.CName, HTClientHello), col.Of(cs.pair.SName, HTServerHello)
	if len(chs) == 0 || len(shs) == 0 {
		rc.Violate("harness", "hellos missing on the wire")

		return false
	}
	ch, _ := ParseClientHello(chs[len(chs)-1].Body)
	sh, _ := ParseServerHello(shs[len(shs)-1].Body)
	ms := cs.pair.Env.KeyLogs[cs.pair.CName].Master(ch.Random)
	if len(ms) == 0 {
		rc.Violate("harness", "no key log line")

		return false
	}
	ref, err := NewRef12(sh.Suites[0], ms[len(ms)-1], ch.Random, sh.Random)
	if err != nil {
		rc.Violate("harness", "%v", err)

		return false
	}
	cs.ref12 = ref

	return true
}

// authentic reports whether every record of the datagram claims protection and
// authenticates under the reference keys (and returns the decoded payloads).
// classify judges a datagram record by record: authentic = every record opens under the reference
// keys, anyAuthentic = at least one does (a genuine record followed by junk that happens to frame
// as a second record is still entitled to delivery: authenticity is a property of records).
func (cs *c05Session) classify(data []byte, cidLen int, fromClient bool) (claimsProtection, authentic, anyAuthentic bool) {
	recs, err := ParseDatagram(data, cidLen)
	if err != nil || len(recs) == 0 {
		return false, false, false
	}
	claimsProtection = true
	authentic = true
	for _, r := range recs {
		if r.Unified {
			if cs.dec13 == nil {
				return true, false, false
			}
			// a fresh decoder per probe: classification must not advance the expected sequence number
			d := NewDecoder13(cs.dec13.Suite, cs.dec13.Secrets)
			for e, v := range cs.dec13.next {
				d.next[e] = v
			}
			if _, _, _, _, oerr := d.Open(r); oerr != nil {
				authentic = false
			} else {
				anyAuthentic = true
			}

			continue
		}
		if r.Epoch == 0 || r.Type == CTChangeCipherSpec {
			claimsProtection = false

			continue
		}
		if cs.ref12 == nil {
			authentic = false

			continue
		}
		if _, _, oerr := cs.ref12.Open(fromClient, r); oerr != nil {
			authentic = false
		} else {
			anyAuthentic = true
		}
	}

	return claimsProtection, authentic, anyAuthentic
}

func mutateRecord(r *rand.Rand, genuine []byte, cidLen int, other []byte) ([]byte, string) {
	d := append([]byte(nil), genuine...)
	unified := d[0]&0xe0 == 0x20
	hdrLen := 13
	if !unified && d[0] == CTCID {
		hdrLen = 13 + cidLen
	}
	if unified {
		hdrLen = 1 + 2 + 2
		if d[0]&0x10 != 0 {
			hdrLen += cidLen
		}
	}
	if hdrLen > len(d) {
		hdrLen = len(d)
	}
	switch r.IntN(13) {
	case 11: // legacy framing, a protected epoch, and a body nobody protected
		epoch := uint16(3 + r.IntN(2))
		if !unified {
			epoch = uint16(d[3])<<8 | uint16(d[4])
		}
		var body []byte
		ctype := []byte{CTAlert, CTAlert, CTAppData, CTACK, CTHandshake}[r.IntN(5)]
		switch ctype {
		case CTAlert:
			body = []byte{byte(1 + r.IntN(2)), []byte{0, 10, 20, 40, 80}[r.IntN(5)]}
		case CTAppData:
			body = []byte("nobody protected this")
		case CTACK:
			for q := uint64(0); q < 8; q++ {
				body = append(append(body, u64(uint64(epoch))...), u64(q)...)
			}
			body = append([]byte{byte(len(body) >> 8), byte(len(body))}, body...)
		default:
			body = []byte{24, 0, 0, 1, 0, byte(r.IntN(4)), 0, 0, 0, 0, 0, 1, byte(r.IntN(2))}
		}
		rec := []byte{ctype, 0xfe, 0xfd, byte(epoch >> 8), byte(epoch)}
		rec = append(rec, u64(uint64(0x7000+r.IntN(4096)))[2:]...)
		rec = append(rec, byte(len(body)>>8), byte(len(body)))

		return append(rec, body...), "legacy-cleartext-in-protected-epoch"
	case 0: // header bit
		bit := r.IntN(8 * hdrLen)
		d[bit/8] ^= 1 << (bit % 8)

		return d, "header-bit"
	case 1: // body bit
		if len(d) > hdrLen {
			bit := 8*hdrLen + r.IntN(8*(len(d)-hdrLen))
			d[bit/8] ^= 1 << (bit % 8)
		}

		return d, "body-bit"
	case 2: // last byte (tag / padding)
		d[len(d)-1] ^= byte(1 << r.IntN(8))

		return d, "tag-bit"
	case 3: // content type
		if !unified {
			d[0] = []byte{20, 21, 22, 23, 24, 25, 26}[r.IntN(7)]
		} else {
			d[0] ^= byte(1 << r.IntN(5))
		}

		return d, "type"
	case 4: // epoch
		if !unified && len(d) >= 5 {
			e := int(d[3])<<8 | int(d[4])
			e += []int{1, -1, 2, 255, -e}[r.IntN(5)]
			d[3], d[4] = byte(e>>8), byte(e)
		} else {
			d[0] ^= byte(1 + r.IntN(3))
		}

		return d, "epoch"
	case 5: // sequence number
		if !unified && len(d) >= 11 {
			switch r.IntN(4) {
			case 0:
				d[10]++
			case 1:
				d[10]--
			case 2:
				for i := 5; i < 11; i++ {
					d[i] = 0xff
				}
			case 3:
				d[5+r.IntN(6)] ^= byte(1 << r.IntN(8))
			}
		} else if unified && len(d) > 2 {
			d[1+r.IntN(2)] ^= byte(1 << r.IntN(8))
		}

		return d, "seq"
	case 6: // length field
		if !unified && len(d) >= hdrLen {
			l := int(d[hdrLen-2])<<8 | int(d[hdrLen-1])
			l += []int{1, -1, 16, -16}[r.IntN(4)]
			if l < 0 {
				l = 0
			}
			d[hdrLen-2], d[hdrLen-1] = byte(l>>8), byte(l)
		}

		return d, "length"
	case 7: // truncate
		k := 1 + r.IntN(16)
		if k < len(d) {
			d = d[:len(d)-k]
		}

		return d, "truncate"
	case 8: // extend
		for k := 1 + r.IntN(16); k > 0; k-- {
			d = append(d, byte(r.IntN(256)))
		}

		return d, "extend"
	case 9: // version
		if !unified {
			d[1+r.IntN(2)] ^= byte(1 << r.IntN(8))
		}

		return d, "version"
	case 10: // connection ID bytes / presence
		if !unified && d[0] == CTCID && cidLen > 0 {
			d[11+r.IntN(cidLen)] ^= byte(1 << r.IntN(8))

			return d, "cid-bytes"
		}
		if !unified && d[0] == CTCID {
			d[0] = CTAppData

			return d, "cid-type-removed"
		}
		if !unified {
			d[0] = CTCID

			return d, "cid-type-added"
		}
		d[0] ^= 0x10

		return d, "cid-bit"
	default: // body of one record under the header of another (or of the other session)
		if other != nil && len(other) > hdrLen && len(d) > hdrLen {
			return append(append([]byte(nil), d[:hdrLen]...), other[min(hdrLen, len(other)):]...), "header-body-splice"
		}

		return d, "noop"
	}
}

func c05Run(rc *RunCtx, params any) {
	p := params.(*C05Params)
	s := rc.S
	cfg, ok := dataCfgByName(p.Cfg)
	if !ok {
		rc.Violate("harness", "unknown cfg")

		return
	}
	rc.R.Class = cfg.Name + "/" + p.Dir
	rc.R.NonTriv = true
	rc.Note("proto", protoTag(cfg.C, cfg.S))
	A := newC05Session(rc, cfg, "c", "s")
	if A == nil {
		return
	}
	defer A.pair.Teardown()
	var B *c05Session
	if p.Splice {
		B = newC05Session(rc, cfg, "cb", "sb")
		if B == nil {
			return
		}
		defer B.pair.Teardown()
	}
	from, to := "c", "s"
	fromAddr, toAddr := A.pair.CAddr, A.pair.SAddr
	cidLen := len(cfg.S.CIDOf())
	if p.Dir == "s2c" {
		from, to = "s", "c"
		fromAddr, toAddr = A.pair.SAddr, A.pair.CAddr
		cidLen = len(cfg.C.CIDOf())
	}
	readBuf := 16384
	if p.ReadBuf > 0 {
		readBuf = p.ReadBuf
	}
	rd := A.pair.StartReaderBuf(to, readBuf)
	toSock := A.pair.SSock
	if to == "c" {
		toSock = A.pair.CSock
	}
	A.net.Capture = map[string]bool{from: true}
	var payloads, genuine [][]byte
	for i, sz := range p.Sizes {
		pl := Payload(from, 5, i, sz)
		before := len(A.net.Captured)
		if err := A.pair.WriteSync(from, pl, 10*time.Second); err != nil {
			rc.Violate("harness-write", "write: %v", err)

			return
		}
		if len(A.net.Captured) != before+1 {
			rc.Violate("harness-capture", "write produced %d datagrams", len(A.net.Captured)-before)

			return
		}
		payloads = append(payloads, pl)
		genuine = append(genuine, A.net.Captured[before].Data)
	}
	if !A.refFor(rc, cfg, from) {
		return
	}
	var foreign [][]byte
	if B != nil {
		fromB := "cb"
		if from == "s" {
			fromB = "sb"
		}
		B.net.Capture = map[string]bool{fromB: true}
		for i, sz := range p.Sizes {
			if err := B.pair.WriteSync(fromB, Payload(from, 5, i, sz), 10*time.Second); err == nil && len(B.net.Captured) > 0 {
				foreign = append(foreign, B.net.Captured[len(B.net.Captured)-1].Data)
			}
		}
	}
	delivered := map[int]int{}
	checkReads := func(ctx string) bool {
		for len(rd.Got) > 0 {
			g := rd.Got[0]
			rd.Got = rd.Got[1:]
			found := -1
			for i, pl := range payloads {
				if bytes.Equal(pl, g) {
					found = i
				}
			}
			if found < 0 {
				rc.Violate("read-not-written:"+ctx, "Read returned %s (%d bytes) which the peer never wrote (after %s)", preview(g), len(g), ctx)

				return false
			}
			delivered[found]++
			if delivered[found] > 1 {
				rc.Violate("read-twice:"+ctx, "payload %d was returned by Read twice (after %s)", found, ctx)

				return false
			}
		}

		return true
	}
	inject := func(data []byte, kind string) bool {
		claims, auth, anyAuth := A.classify(data, cidLen, from == "c")
		for _, gg := range genuine {
			// a datagram that begins with a byte-identical genuine record contains an authentic record
			// whatever the reference model can open (it cannot open CBC records with connection IDs: F10)
			if len(data) > len(gg) && bytes.HasPrefix(data, gg) {
				anyAuth = true
			}
		}
		emBefore := toSock.EmitCount()
		gotBefore := len(rd.Got)
		errBefore := len(rd.Errs)
		A.net.InjectNow(fromAddr, toAddr, data)
		s.Settle()
		s.Fault("mutant:" + kind)
		if len(rd.Errs) != errBefore && claims && !auth {
			rc.Violate("forgery-surfaced-as-read-error:"+kind, "after a %s mutant (claims protection=%v, authentic under the reference keys=%v) the application's Read returned error %q", kind, claims, auth, rd.Errs[len(rd.Errs)-1])

			return false
		}
		if claims && !auth {
			s.Probe("forgery-claiming-protection")
			if toSock.EmitCount() != emBefore {
				rc.Violate("forgery-answered:"+kind, "a %s mutant that claims protection and does not authenticate made the receiver emit %d datagram(s)", kind, toSock.EmitCount()-emBefore)

				return false
			}
			if anyAuth {
				s.Probe("authentic-record-beside-junk")
			}
			if len(rd.Got) != gotBefore && !anyAuth {
				rc.Violate("forgery-delivered:"+kind, "a %s mutant that does not authenticate under the reference keys was delivered by Read: %s", kind, preview(rd.Got[len(rd.Got)-1]))

				return false
			}
		} else if claims && auth {
			s.Probe("mutant-still-authentic:" + kind)
		} else {
			s.Probe("mutant-not-claiming-protection")
		}

		return checkReads(kind)
	}
	for i, g := range genuine {
		for k := 0; k < p.Mutants; k++ {
			d := s.Ch.Draw("mut", func(r *rand.Rand) Dec { return Dec{A: int64(r.Uint32()) + 1} })
			mr := rand.New(rand.NewPCG(uint64(d.A), 5))
			var other []byte
			switch {
			case len(foreign) > 0 && mr.IntN(2) == 0:
				other = foreign[mr.IntN(len(foreign))]
			case len(genuine) > 1:
				other = genuine[(i+1+mr.IntN(len(genuine)-1))%len(genuine)]
			}
			if len(foreign) > 0 && mr.IntN(8) == 0 {
				if !inject(foreign[mr.IntN(len(foreign))], "foreign-session-record") {
					return
				}

				continue
			}
			m, kind := mutateRecord(mr, g, cidLen, other)
			if bytes.Equal(m, g) {
				continue
			}
			if !inject(m, kind) {
				return
			}
		}
		// the genuine record bearing that sequence number is still accepted afterwards
		if !rd.Done {
			A.net.InjectNow(fromAddr, toAddr, g)
			s.Settle()
			if k := len(rd.Got); k > 0 && len(rd.Got[k-1]) < len(payloads[i]) && bytes.HasPrefix(payloads[i], rd.Got[k-1]) {
				rc.Violate("read-partial", "Read with a %d-byte buffer returned the first %d bytes of a %d-byte payload as if they were a payload", readBuf, len(rd.Got[k-1]), len(payloads[i]))

				return
			}
			if p.ReadBuf > 0 && len(payloads[i]) > p.ReadBuf && len(rd.Got) == 0 && rd.Short > 0 {
				s.Probe("payload-refused-short-buffer") // refused as a whole: allowed; a part of it is caught by checkReads
			} else if delivered[i] == 0 && (len(rd.Got) == 0 || !bytes.Equal(rd.Got[len(rd.Got)-1], payloads[i])) {
				rc.Violate("genuine-lost-after-forgeries", "after %d mutants the genuine record %d (%d payload bytes) was not delivered; reader done=%v err=%v", p.Mutants, i, len(payloads[i]), rd.Done, rd.Err)

				return
			}
			if !checkReads("genuine") {
				return
			}
			s.Probe("genuine-accepted-after-forgeries")
		}
		if p.After {
			for k := 0; k < p.Mutants/4; k++ {
				d := s.Ch.Draw("mut", func(r *rand.Rand) Dec { return Dec{A: int64(r.Uint32()) + 1} })
				mr := rand.New(rand.NewPCG(uint64(d.A), 5))
				m, kind := mutateRecord(mr, g, cidLen, nil)
				if bytes.Equal(m, g) {
					continue
				}
				if !inject(m, kind+"-after") {
					return
				}
			}
		}
	}
	_ = fmt.Sprint
}

func init() {
	Register(&Scenario{
		ID:        "C05",
		Counts:    c05Counts,
		Gen:       c05Gen,
		NewParams: func() any { return &C05Params{} },
		Run:       c05Run,
	})
}
