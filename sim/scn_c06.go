package verifsim

import (
	"bytes"
	"context"
	"fmt"
	"math/rand/v2"
	"time"

	dtls "github.com/pion/dtls/v3"
)

// C06: anti-replay. No payload delivered twice; a record fewer than W sequence
// numbers behind the newest accepted record of its epoch is delivered exactly once.

type C06Params struct {
	Cfg     string `json:"cfg"`
	W       int    `json:"window"`
	K       int    `json:"records"`
	Arrival []int  `json:"arrival"` // indices into the K captured records, with repetition
	Size    int    `json:"size,omitempty"`
	Enum    string `json:"enum,omitempty"`
	// Updates (DTLS 1.3 only): after the arrival sequence the sender updates its keys this many
	// times, then every record that was accepted is presented once more
	Updates int `json:"updates,omitempty"`
	// Boundary: before the K records are written the sender's record number is advanced (in
	// steps of at most 30000, one delivered record after each, as if the records in between had
	// been lost) so that the K records straddle Boundary x 2^16; BoundaryOff of them lie before it
	Boundary    int `json:"boundary,omitempty"`
	BoundaryOff int `json:"boundary_off,omitempty"`
	// ZeroOpt: WithReplayProtectionWindow(0) is given explicitly; it means the default window (W = 64)
	ZeroOpt bool `json:"zero_opt,omitempty"`
	// Glue: every arriving datagram carries its record twice (record || record): the copy must be
	// recognised although the first has only just been accepted
	Glue bool `json:"glue,omitempty"`
	// Import (DTLS 1.2): after the arrival sequence the receiver's state is serialised, its socket
	// dies, a connection is resumed from the bytes, and every record the receiver had delivered
	// is presented once more: the session has read those payloads already
	Import bool `json:"import,omitempty"`
}

var c06Windows = []int{1, 2, 3, 64}

func c06Bounds(tier string) (k, l int) {
	if tier == "thorough" {
		return 5, 7
	}

	return 4, 6
}

func ipow(b, e int) int {
	r := 1
	for i := 0; i < e; i++ {
		r *= b
	}

	return r
}

func c06Counts(tier string) (int, int) {
	k, l := c06Bounds(tier)
	enum := ipow(k, l) * len(c06Windows)
	if tier == "thorough" {
		return enum, 100000000
	}

	return enum, 10000000
}

func c06Gen(r *rand.Rand, tier string, idx int) any {
	cfgs := DataCfgs()
	k, l := c06Bounds(tier)
	space := ipow(k, l)
	p := &C06Params{}
	if idx < space*len(c06Windows) {
		p.W = c06Windows[idx%len(c06Windows)]
		code := idx / len(c06Windows)
		p.K = k
		p.Cfg = cfgs[code%len(cfgs)].Name
		p.Enum = fmt.Sprintf("all arrival sequences of length %d over %d records, code=%d", l, k, code)
		for i := 0; i < l; i++ {
			p.Arrival = append(p.Arrival, code%k)
			code /= k
		}

		return p
	}
	p.Cfg = cfgs[r.IntN(len(cfgs))].Name
	switch r.IntN(4) {
	case 0:
		p.W = 1 + r.IntN(8)
	case 1:
		p.W = 64
		p.ZeroOpt = r.IntN(2) == 0
	default:
		p.W = 1 + r.IntN(256)
	}
	p.K = 2 + r.IntN(60)
	if r.IntN(6) == 0 {
		p.K = 100 + r.IntN(300)
	}
	p.Size = []int{0, 1, 16, 100, 1000}[r.IntN(5)]
	p.Glue = r.IntN(4) == 0
	if p.Glue && p.Size > 100 {
		p.Size = 100
	}
	if c, _ := dataCfgByName(p.Cfg); c.C.MaxVer == 13 && r.IntN(2) == 0 {
		p.Updates = 1 + r.IntN(6)
	}
	if c, _ := dataCfgByName(p.Cfg); c.C.MaxVer == 12 && r.IntN(6) == 0 {
		p.Import = true
	}
	if r.IntN(4) == 0 {
		p.Boundary, p.BoundaryOff = 1+r.IntN(2), r.IntN(p.K+1)
	}
	// arrival: identity with displaced and duplicated records, displacement around W
	type slot struct {
		pos float64
		idx int
	}
	var slots []slot
	for i := 0; i < p.K; i++ {
		pos := float64(i)
		switch r.IntN(5) {
		case 0:
			d := []int{p.W - 1, p.W, p.W + 1, p.W / 2, r.IntN(2*p.W + 2)}[r.IntN(5)]
			pos += float64(d) + 0.5
		}
		slots = append(slots, slot{pos, i})
		for r.IntN(4) == 0 { // duplicates later
			slots = append(slots, slot{pos + float64(r.IntN(2*p.W+4)) + 0.25, i})
		}
	}
	for i := 1; i < len(slots); i++ { // insertion sort by pos (stable)
		for j := i; j > 0 && slots[j].pos < slots[j-1].pos; j-- {
			slots[j], slots[j-1] = slots[j-1], slots[j]
		}
	}
	for _, s := range slots {
		p.Arrival = append(p.Arrival, s.idx)
	}

	return p
}

func c06Run(rc *RunCtx, params any) {
	p := params.(*C06Params)
	s := rc.S
	cfg, ok := dataCfgByName(p.Cfg)
	if !ok {
		rc.Violate("harness", "unknown cfg %q", p.Cfg)

		return
	}
	rc.R.Class = fmt.Sprintf("%s/W=%d", cfg.Name, p.W)
	cfg.C.ReplayWindow, cfg.S.ReplayWindow = p.W, p.W
	if p.ZeroOpt && p.W == 64 {
		cfg.C.ReplayWindow, cfg.S.ReplayWindow = -1, -1
		rc.R.Class += "/zero-option"
	}
	rc.Note("proto", protoTag(cfg.C, cfg.S))
	n := NewSimNet(s, NetRules{})
	pair, err := NewPair(s, n, cfg.C, cfg.S, nil)
	if err != nil {
		rc.Violate("harness", "config: %v", err)

		return
	}
	defer pair.Teardown()
	if !pair.Establish(60 * time.Second) {
		rc.Violate("harness-establish", "clean handshake failed: c=%v s=%v", pair.CHs.Err, pair.SHs.Err)

		return
	}
	rd := pair.StartReader("s")
	// let post-handshake traffic (tickets, ACKs) drain
	s.Run(func() bool { return false }, 5*time.Second)
	if p.Boundary > 0 {
		epoch := dtls.VerifSessionOf(pair.Client).LocalEpoch
		seqs := dtls.VerifLocalSeq(pair.Client)
		cur := uint64(0)
		if int(epoch) < len(seqs) {
			cur = seqs[epoch]
		}
		target := uint64(p.Boundary)<<16 - uint64(p.BoundaryOff)
		for k := 0; cur < target; k++ {
			step := min(uint64(30000), target-cur)
			dtls.VerifSkipLocalSeq(pair.Client, step)
			cur += step
			if cur >= target {
				break
			}
			before := len(rd.Got)
			if err := pair.WriteSync("c", Payload("c", 9, k, 12), 10*time.Second); err != nil {
				rc.Violate("harness-write", "filler write failed: %v", err)

				return
			}
			cur++
			if !s.Run(func() bool { return len(rd.Got) > before }, 5*time.Second) {
				rc.Violate("lost-after-gap", "after a gap of %d record numbers (indistinguishable from that many lost records) a record was not delivered on a loss-free link", step)

				return
			}
		}
		rd.Got, rd.GotSeq = nil, nil
		s.Probe(fmt.Sprintf("records-straddle-%dx2^16", p.Boundary))
	}
	n.Capture = map[string]bool{"c": true}
	var payloads [][]byte
	for i := 0; i < p.K; i++ {
		pl := Payload("c", 0, i, p.Size)
		before := len(n.Captured)
		if err := pair.WriteSync("c", pl, 10*time.Second); err != nil {
			rc.Violate("harness-write", "write %d failed: %v", i, err)

			return
		}
		if len(n.Captured) != before+1 {
			rc.Violate("harness-capture", "write %d produced %d datagrams", i, len(n.Captured)-before)

			return
		}
		payloads = append(payloads, pl)
	}
	if len(rd.Got) != 0 {
		rc.Violate("early-read", "server read %d payloads before anything was delivered", len(rd.Got))

		return
	}
	// reference model
	latest := -1
	accepted := make([]bool, p.K)
	delivered := make([]int, p.K)
	dup, edge, old := 0, 0, 0
	for step, a := range p.Arrival {
		if a < 0 || a >= p.K {
			continue
		}
		before := len(rd.Got)
		dgram := append([]byte(nil), n.Captured[a].Data...)
		if p.Glue {
			dgram = append(dgram, n.Captured[a].Data...)
			s.Fault("record-twice-in-one-datagram")
		}
		n.InjectNow(pair.CAddr, pair.SAddr, dgram)
		s.Settle()
		got := rd.Got[before:]
		for _, g := range got {
			if !bytes.Equal(g, payloads[a]) {
				rc.Violate("wrong-payload", "step %d: arrival of record %d made Read return %s", step, a, preview(g))

				return
			}
		}
		if len(got) > 1 {
			rc.Violate("multi", "step %d: one datagram produced %d reads", step, len(got))

			return
		}
		delivered[a] += len(got)
		switch {
		case accepted[a]:
			dup++
			if len(got) != 0 {
				rc.Violate(c06ReplaySig(p.W), "step %d: record %d (already delivered) was delivered again (W=%d, newest accepted=%d)", step, a, p.W, latest)

				return
			}
		case latest < 0 || latest-a < p.W:
			if latest >= 0 && latest-a == p.W-1 {
				edge++
			}
			if len(got) != 1 {
				rc.Violate("window-drop", "step %d: record %d is %d behind the newest accepted record %d (< window %d) but was not delivered", step, a, latest-a, latest, p.W)

				return
			}
		default:
			old++ // outside the window: may be delivered or not, never twice
		}
		if len(got) == 1 {
			accepted[a] = true
			if a > latest {
				latest = a
			}
		}
	}
	if p.Updates > 0 && cfg.C.MaxVer == 13 {
		n.Capture = nil
		for u := 0; u < p.Updates; u++ {
			done := false
			var uerr error
			s.Go("c-update", func() {
				ctx, cancel := context.WithTimeout(context.Background(), s.Uniq(time.Minute))
				defer cancel()
				uerr = pair.Client.UpdateKeys(ctx, dtls.KeyUpdateOptions{})
				done = true
			})
			s.Run(func() bool { return done }, 2*time.Minute)
			if !done || uerr != nil {
				rc.Note("update-failed", fmt.Sprint(uerr))

				break
			}
			s.Fault("sender-key-update")
			s.Run(func() bool { return false }, 500*time.Millisecond)
		}
		for a := range accepted {
			if !accepted[a] {
				continue
			}
			before := len(rd.Got)
			n.InjectNow(pair.CAddr, pair.SAddr, append([]byte(nil), n.Captured[a].Data...))
			s.Settle()
			if len(rd.Got) != before {
				sig := "replayed:after-key-update"
				if p.W%64 >= 33 {
					sig = c06ReplaySig(p.W) // the window itself forgets early for these sizes (F17)
				}
				rc.Violate(sig, "record %d, delivered before, was delivered again when its datagram was replayed after %d key update(s) of the sender", a, p.Updates)

				return
			}
		}
		s.Probe("replay-after-key-update-rejected")
	}
	if p.Import && cfg.C.MaxVer == 12 {
		if st, okst := pair.Server.ConnectionState(); okst {
			raw, merr := st.MarshalBinary()
			var st2 dtls.State
			if merr == nil && st2.UnmarshalBinary(raw) == nil {
				pair.SSock.Sever()
				if resumed, rerr := dtls.ResumeWithOptions(&st2, n.Rebind("s2", pair.SAddr), pair.CAddr, pair.Env.Shared["s"]...); rerr == nil {
					var got2 [][]byte
					s.Go("s2-reader", func() {
						buf := make([]byte, 8192)
						for {
							k, err := resumed.Read(buf)
							if err != nil {
								return
							}
							got2 = append(got2, append([]byte(nil), buf[:k]...))
						}
					})
					s.Run(func() bool { return false }, 100*time.Millisecond)
					defer func() { s.Go("s2-close", func() { _ = resumed.Close() }) }()
					for a := range accepted {
						if !accepted[a] {
							continue
						}
						n.InjectNow(pair.CAddr, pair.SAddr, append([]byte(nil), n.Captured[a].Data...))
						s.Settle()
						if len(got2) != 0 {
							rc.Violate("replayed:after-import", "record %d, delivered by the receiver before its state was exported, was delivered again by the connection resumed from that state when its datagram was replayed (W=%d)", a, p.W)

							return
						}
					}
					s.Probe("replay-after-import-rejected")
				}
			}
		}
	}
	for i, d := range delivered {
		if d > 1 {
			rc.Violate(c06ReplaySig(p.W), "record %d delivered %d times", i, d)

			return
		}
	}
	if dup > 0 {
		s.Probe("duplicate-arrival")
	}
	if edge > 0 {
		s.Probe("window-edge-W-1-hit")
	}
	if old > 0 {
		s.Probe("older-than-window-arrival")
	}
	rc.R.NonTriv = dup > 0 || old > 0 || edge > 0 || !sortedInts(p.Arrival)
	s.Fault("replayed-datagram")
	s.Faults["replayed-datagram"] += dup - 1
	s.Faults["reordered-arrival"] += countInversions(p.Arrival)
	if len(rd.Errs) > 0 {
		rc.Note("reader-errors", rd.Errs[0])
	}
}

// c06ReplaySig classifies a replay by the window arithmetic involved, so that a
// known finding about one class of window sizes does not hide another.
func c06ReplaySig(w int) string {
	if m := w % 64; m >= 33 {
		return "replayed:window-mod-64-in-33..63"
	}

	return "replayed:window-other"
}

func sortedInts(a []int) bool {
	for i := 1; i < len(a); i++ {
		if a[i] <= a[i-1] {
			return false
		}
	}

	return true
}

func countInversions(a []int) int {
	c := 0
	for i := 1; i < len(a); i++ {
		if a[i] < a[i-1] {
			c++
		}
	}

	return c
}

func init() {
	Register(&Scenario{
		ID:        "C06",
		Counts:    c06Counts,
		Gen:       c06Gen,
		NewParams: func() any { return &C06Params{} },
		Run:       c06Run,
		Shrink: func(params any) []any {
			p := params.(*C06Params)
			var out []any
			for i := range p.Arrival { // drop one arrival
				q := *p
				q.Arrival = append(append([]int(nil), p.Arrival[:i]...), p.Arrival[i+1:]...)
				out = append(out, &q)
				if len(out) > 40 {
					break
				}
			}

			return out
		},
	})
}
