package verifsim

import (
	"bytes"
	"crypto/sha256"
	"crypto/sha512"
	"fmt"
	"hash"
	"math/rand/v2"
	"time"

	dtls "github.com/pion/dtls/v3"
)

// C07: nothing secret leaves unprotected.

type C07Params struct {
	Cfg        string   `json:"cfg"`
	Rules      NetRules `json:"rules"`
	WritersC   int      `json:"writers_c"`
	WritersS   int      `json:"writers_s"`
	PerWriter  int      `json:"per_writer"`
	ParkPm     int      `json:"park_pm"`
	EarlyWrite bool     `json:"early_write"`
	CloseRace  bool     `json:"close_race"`
	Cleartext  int      `json:"cleartext"` // forged unprotected application_data records injected (both directions)
	MarkerSeed uint64   `json:"marker_seed"`
	MTU        int      `json:"mtu,omitempty"` // 0 = default; tiny values fragment even the Finished message
	// Restore (DTLS 1.2): "c" or "s": that side's state is serialised, and the exporter is also asked
	// of a connection restored from the bytes - it must hand out the same secret-dependent value
	Restore string `json:"restore,omitempty"`
}

func c07Counts(tier string) (int, int) {
	if tier == "thorough" {
		return 0, 100000000
	}

	return 0, 10000000
}

func c07Gen(r *rand.Rand, tier string, idx int) any {
	ds := DataCfgs()
	p := &C07Params{Cfg: ds[r.IntN(len(ds))].Name, MarkerSeed: r.Uint64()}
	p.WritersC, p.WritersS = 1+r.IntN(3), 1+r.IntN(3)
	p.PerWriter = 1 + r.IntN(4)
	p.ParkPm = []int{0, 0, 200, 500}[r.IntN(4)]
	p.EarlyWrite = r.IntN(2) == 0
	p.CloseRace = r.IntN(3) == 0
	p.Cleartext = []int{0, 2, 6}[r.IntN(3)]
	if c, _ := dataCfgByName(p.Cfg); c.C.MaxVer == 12 && r.IntN(5) == 0 {
		p.MTU = []int{8, 9, 11, 12, 13, 24, 48, 100}[r.IntN(8)]
	}
	if c, _ := dataCfgByName(p.Cfg); c.C.MaxVer == 12 && !p.CloseRace && r.IntN(3) == 0 {
		p.Restore = []string{"c", "s"}[r.IntN(2)]
	}
	if r.IntN(3) != 0 {
		p.Rules = NetRules{DropPm: 50 + r.IntN(300), DupPm: r.IntN(100), HoldPm: r.IntN(100), FaultsUntilIdx: 3 + r.IntN(14),
			HoldMaxNs: int64(time.Millisecond) * int64(10+r.IntN(2500))}
	}

	return p
}

func marker(seed uint64, tag string, k int) []byte {
	r := rand.New(rand.NewPCG(seed, hashString(tag)+uint64(k)))
	b := make([]byte, 24)
	for i := range b {
		b[i] = byte(r.IntN(256))
	}

	return b
}

// publicOnlyExporters lists exporter values anyone can compute from the cleartext hellos.
func publicOnlyExporters(label string, cr, sr []byte, n int) [][]byte {
	var out [][]byte
	for _, h := range []func() hash.Hash{sha256.New, sha512.New384} {
		for _, key := range [][]byte{nil, make([]byte, 32), make([]byte, 48)} {
			for _, seed := range [][]byte{append(append([]byte(nil), cr...), sr...), append(append([]byte(nil), sr...), cr...)} {
				out = append(out, PRF12(h, key, label, seed, n))
				out = append(out, ExpandLabel13(h, append(make([]byte, 0), key...), label, seed, n))
				out = append(out, hkdfExpand(h, key, append([]byte(label), seed...), n))
			}
			// the TLS 1.3 exporter construction over a secret that is no secret
			empty := hashOf(h)
			if len(key) == 0 || len(key) == len(empty) {
				out = append(out, ExpandLabel13(h, ExpandLabel13(h, key, label, empty, len(empty)), "exporter", empty, n))
			}
		}
	}

	return out
}

func c07Run(rc *RunCtx, params any) {
	p := params.(*C07Params)
	s := rc.S
	cfg, ok := dataCfgByName(p.Cfg)
	if !ok {
		rc.Violate("harness", "unknown cfg")

		return
	}
	rc.R.Class = cfg.Name
	rc.R.NonTriv = true
	rc.Note("proto", protoTag(cfg.C, cfg.S))
	is13 := cfg.C.MaxVer == 13
	var secrets [][]byte
	if cfg.C.PSK != "" {
		psk := marker(p.MarkerSeed, "psk", 0)
		cfg.C.PSK, cfg.S.PSK = string(psk), string(psk)
		secrets = append(secrets, psk)
	}
	if p.MTU > 0 {
		cfg.C.MTU, cfg.S.MTU = p.MTU, p.MTU
	}
	n := NewSimNet(s, p.Rules)
	pair, err := NewPair(s, n, cfg.C, cfg.S, nil)
	if err != nil {
		rc.Violate("harness", "config: %v", err)

		return
	}
	s.Policy = SchedPolicy{ParkPermille: p.ParkPm, Active: p.ParkPm > 0}
	writesLive := 0
	written := map[string]bool{}
	startWriters := func() {
		for _, side := range []struct {
			ep string
			n  int
		}{{"c", p.WritersC}, {"s", p.WritersS}} {
			for w := 0; w < side.n; w++ {
				ep, w := side.ep, w
				writesLive++
				conn := pair.ConnOf(ep)
				var pls [][]byte
				for k := 0; k < p.PerWriter; k++ {
					m := marker(p.MarkerSeed, ep, w*100+k)
					pls = append(pls, m)
					secrets = append(secrets, m)
					written[string(m)] = true
				}
				s.Go(fmt.Sprintf("%s-writer%d", ep, w), func() {
					defer func() { writesLive-- }()
					for _, m := range pls {
						if _, err := conn.Write(m); err != nil {
							return
						}
					}
				})
			}
		}
	}
	if p.EarlyWrite {
		off := s.Ch.Draw("start", func(r *rand.Rand) Dec { return Dec{C: 1 + r.Int64N(999_983)} })
		s.After(time.Duration(off.C), startWriters)
	}
	// forged cleartext application data, before, during and after the handshake
	clearMarks := map[string]bool{}
	for i := 0; i < p.Cleartext; i++ {
		d := s.Ch.Draw("clear-at", func(r *rand.Rand) Dec {
			return Dec{A: r.Int64N(int64(400 * time.Millisecond)), B: int64(r.IntN(2)), C: int64(r.IntN(1 << 20))}
		})
		m := marker(p.MarkerSeed, "forged", i)
		clearMarks[string(m)] = true
		s.After(time.Duration(d.A)+time.Duration(i)*time.Microsecond+53*time.Nanosecond, func() {
			// half far ahead of anything genuine, half inside the replay window of a running handshake
			seq := uint64(0x200000 + d.C)
			if d.C%2 == 0 {
				seq = uint64(d.C>>1) % 64
			}
			rec := []byte{CTAppData, 0xfe, 0xfd, 0, 0, byte(seq >> 40), byte(seq >> 32), byte(seq >> 24), byte(seq >> 16), byte(seq >> 8), byte(seq), 0, byte(len(m))}
			rec = append(rec, m...)
			s.Fault("cleartext-appdata-injected")
			if d.B == 0 {
				n.InjectNow(pair.CAddr, pair.SAddr, rec)
			} else {
				n.InjectNow(pair.SAddr, pair.CAddr, rec)
			}
		})
	}
	// what an application that asks early gets: ConnectionState() and the exporter are polled at
	// every quiescent point while the handshake runs
	var earlyEKM [][]byte
	if p.MarkerSeed%2 == 0 {
		s.OnStep = func(int64) {
			for _, conn := range []*dtls.Conn{pair.Client, pair.Server} {
				if st, okst := conn.ConnectionState(); okst {
					if v, eerr := st.ExportKeyingMaterial("EXTRACTOR-dtls_srtp", nil, 60); eerr == nil && len(v) > 0 {
						dup := false
						for _, o := range earlyEKM {
							dup = dup || bytes.Equal(o, v)
						}
						if !dup {
							earlyEKM = append(earlyEKM, v)
						}
					}
				}
			}
		}
	}
	pair.StartHandshakes(0)
	established := s.Run(pair.BothDone, 10*time.Minute) && pair.BothOK()
	s.OnStep = nil
	var rdC, rdS *Reader
	if established {
		rdC, rdS = pair.StartReader("c"), pair.StartReader("s")
		if !p.EarlyWrite {
			startWriters()
		}
		if p.CloseRace {
			s.Run(func() bool { return writesLive <= 1 }, time.Minute)
		} else {
			s.Run(func() bool { return writesLive == 0 }, time.Minute)
			s.Run(func() bool { return false }, 5*time.Second)
		}
	} else {
		s.Run(func() bool { return false }, time.Second)
	}
	// exporter (before teardown)
	var ekm []byte
	var cr, sr []byte
	if established {
		st, okst := pair.Client.ConnectionState()
		if okst {
			ekm, _ = st.ExportKeyingMaterial("EXTRACTOR-dtls_srtp", nil, 60)
		}
	}
	var restoredEKM []byte
	if established && p.Restore != "" && cfg.C.MaxVer == 12 {
		if st, okst := pair.ConnOf(p.Restore).ConnectionState(); okst {
			if raw, merr := st.MarshalBinary(); merr == nil {
				var st2 dtls.State
				if st2.UnmarshalBinary(raw) == nil {
					self, peerAddr, sock := pair.CAddr, pair.SAddr, pair.CSock
					if p.Restore == "s" {
						self, peerAddr, sock = pair.SAddr, pair.CAddr, pair.SSock
					}
					sock.Sever()
					if restored, rerr := dtls.ResumeWithOptions(&st2, n.Rebind(p.Restore+"2", self), peerAddr, pair.Env.Shared[p.Restore]...); rerr == nil {
						// the restored connection's own state is built by its (local, no I/O) Handshake
						hdone := false
						s.Go("restored-handshake", func() { _ = restored.Handshake(); hdone = true })
						s.Run(func() bool { return hdone }, 10*time.Second)
						if st3, ok3 := restored.ConnectionState(); ok3 {
							restoredEKM, _ = st3.ExportKeyingMaterial("EXTRACTOR-dtls_srtp", nil, 60)
							s.Probe("exporter-asked-of-restored-connection")
						}
						s.Go("restored-close", func() { _ = restored.Close() })
					}
				}
			}
		}
	}
	pair.Teardown()
	// ---- (b') nothing forged in clear was delivered ----
	for _, rd := range []*Reader{rdC, rdS} {
		if rd == nil {
			continue
		}
		for _, g := range rd.Got {
			if clearMarks[string(g)] {
				rc.Violate("cleartext-appdata-delivered", "application data that arrived in an unprotected epoch-0 record was returned by %s's Read", rd.Ep)

				return
			}
			if !written[string(g)] {
				rc.Violate("read-not-written", "%s's Read returned a payload nobody wrote", rd.Ep)

				return
			}
		}
	}
	// ---- wire oracles over everything either endpoint handed to its socket ----
	col := NewHsCollector()
	for _, em := range n.Emits {
		cid := len(cfg.S.CIDOf())
		if em.Ep == "s" || em.Ep == "s2" { // "s2" / "c2": the connection restored from that side's state
			cid = len(cfg.C.CIDOf())
		}
		col.Feed(em, cid)
		// (a) no secret marker in any datagram
		for _, m := range secrets {
			if bytes.Contains(em.Data, m) {
				rc.Violate("marker-in-clear", "a datagram emitted by %s (#%d, %s) contains an application payload or pre-shared key in clear", em.Ep, em.Idx, DescribeDatagramCID(em.Data, cid))

				return
			}
		}
		recs, perr := ParseDatagram(em.Data, cid)
		if perr != nil {
			rc.Violate("wire-parse", "datagram %s#%d: %v", em.Ep, em.Idx, perr)

			return
		}
		for _, r := range recs {
			if r.Unified {
				continue
			}
			// (b) application records never carry epoch 0
			if r.Type == CTAppData && r.Epoch == 0 {
				rc.Violate("appdata-epoch0", "%s emitted an application_data record with epoch 0", em.Ep)

				return
			}
			if r.Epoch != 0 && r.Type == CTHandshake && len(r.Body) >= 12 && len(r.Body) <= 24 && r.Body[0] == HTFinished {
				// a record of a protected epoch whose body is, byte for byte, a well-formed cleartext
				// fragment of a 12-byte Finished message (an encrypted body matches with probability 2^-60)
				ln, off, fl := int(be(r.Body[1:4])), int(be(r.Body[6:9])), int(be(r.Body[9:12]))
				if ln == 12 && off+fl <= 12 && len(r.Body) == 12+fl {
					rc.Violate("finished-in-clear", "%s emitted a record with epoch %d whose body is an unencrypted Finished fragment (offset %d, %d bytes)", em.Ep, r.Epoch, off, fl)

					return
				}
			}
			if r.Epoch != 0 {
				if is13 && (r.Type == CTHandshake || r.Type == CTAppData) {
					// DTLS 1.3 protects with the unified header; a legacy-header handshake or
					// application record above epoch 0 is not under record protection
					// (alerts are not among the things the statement lists)
					rc.Violate("legacy-record-in-13:"+fmt.Sprint(r.Type), "%s (DTLS 1.3) emitted a legacy-header record type %d epoch %d seq %d: its body %s is not under record protection", em.Ep, r.Type, r.Epoch, r.Seq, preview(r.Body))

					return
				}

				continue
			}
			// (c) cleartext handshake messages
			for _, f := range r.Hs {
				if f.Type == HTFinished {
					rc.Violate("finished-in-clear", "%s emitted a Finished in an epoch-0 record", em.Ep)

					return
				}
				if is13 && f.Type != HTClientHello && f.Type != HTServerHello {
					rc.Violate("handshake13-in-clear:"+HsName(f.Type), "%s (DTLS 1.3) emitted %s in an unprotected record", em.Ep, HsName(f.Type))

					return
				}
			}
		}
	}
	if len(secrets) > 0 {
		s.Probe("marker-scan-done")
	}
	// ---- (d) exporter is not computable from the cleartext handshake ----
	if established && len(ekm) > 0 {
		chs, shs := col.Of("c", HTClientHello), col.Of("s", HTServerHello)
		if len(chs) > 0 && len(shs) > 0 {
			ch, e1 := ParseClientHello(chs[len(chs)-1].Body)
			sh, e2 := ParseServerHello(shs[len(shs)-1].Body)
			if e1 == nil && e2 == nil {
				cr, sr = ch.Random, sh.Random
				for _, pub := range publicOnlyExporters("EXTRACTOR-dtls_srtp", cr, sr, len(ekm)) {
					if bytes.Equal(pub, ekm) {
						rc.Violate("exporter-public:"+protoTag(cfg.C, cfg.S), "ExportKeyingMaterial equals a value computable from the cleartext hello randoms alone (no secret enters the derivation)")

						return
					}
					for _, early := range earlyEKM {
						if bytes.Equal(pub, early) {
							rc.Violate("exporter-public:early:"+protoTag(cfg.C, cfg.S), "ExportKeyingMaterial, asked while the handshake was still running, returned a value computable without any secret")

							return
						}
					}
				}
				if restoredEKM != nil {
					for _, pub := range publicOnlyExporters("EXTRACTOR-dtls_srtp", cr, sr, len(ekm)) {
						if bytes.Equal(pub, restoredEKM) {
							rc.Violate("exporter-public:restored:"+protoTag(cfg.C, cfg.S), "ExportKeyingMaterial on a connection restored from serialised state equals a value computable from the cleartext hello randoms alone")

							return
						}
					}
					if !bytes.Equal(restoredEKM, ekm) {
						rc.Violate("exporter-unstable:restored:"+protoTag(cfg.C, cfg.S), "ExportKeyingMaterial returned %x... on the original connection and %x... on the connection restored from its serialised state", ekm[:8], restoredEKM[:min(8, len(restoredEKM))])

						return
					}
				}
				for _, early := range earlyEKM {
					if !bytes.Equal(early, ekm) {
						rc.Violate("exporter-unstable:"+protoTag(cfg.C, cfg.S), "ExportKeyingMaterial returned %x... while the handshake was running and %x... for the same label once it had completed", early[:8], ekm[:8])

						return
					}
				}
				if len(earlyEKM) > 0 {
					s.Probe("exporter-asked-during-handshake")
				}
				s.Probe("exporter-not-public")
			}
		}
	}
}

func init() {
	Register(&Scenario{
		ID:        "C07",
		Counts:    c07Counts,
		Gen:       c07Gen,
		NewParams: func() any { return &C07Params{} },
		Run:       c07Run,
	})
}
