package verifsim

import (
	"bytes"
	"fmt"
	"math/rand/v2"
	"time"

	dtls "github.com/pion/dtls/v3"
)

// C08: hostile datagrams cannot crash, wedge or bloat an endpoint.

type C08Params struct {
	Variant string `json:"variant,omitempty"` // handshake variant (injection during the handshake)
	Cfg     string `json:"cfg,omitempty"`     // data configuration (injection after establishment too)
	Mode    string `json:"mode"`              // "U": only unparseable / unauthenticatable datagrams (liveness asserted); "any": every mutator (safety only)
	N       int    `json:"n"`                 // number of hostile datagrams
	SpanMs  int    `json:"span_ms"`           // injected over this span from the start
	Target  string `json:"target"`            // c | s | both
	Flood   string `json:"flood,omitempty"`   // "", frags | tiny | empty | empty-nonempty | overlap | seqs: reassembly stress burst of that fragment shape
	Phase   string `json:"phase,omitempty"`   // "": injection while the handshake runs; "est": against an established session (modes U | K)
	// HelloAlt (handshake phase, mode any): as soon as the client's first ClientHello is on the
	// wire, a well-formed variant of it that leaves the server without a common version, suite,
	// group or signature algorithm is delivered first (a spoofed sender that overtakes the client)
	HelloAlt string `json:"hello_alt,omitempty"`
	// Mangle (handshake phase, mode any; non-zero = seed): every copy of one kind of cleartext
	// handshake message of one sender is replaced in transit by a structurally damaged one -
	// cut at a drawn offset, a few stray bytes appended, the leading length prefix made to agree
	// with what is left - so that it reaches the decoder as the message the receiver is waiting
	// for (an injected one would be taken for a retransmission). Safety clauses only.
	Mangle uint64 `json:"mangle,omitempty"`
	// Clients (Phase "listener", scn_c08lst.go): genuine clients that start during a flood of N
	// spoofed hellos against a listener whose application begins to accept after SpanMs
	Clients int `json:"clients,omitempty"`
}

var c08HelloAlts = []string{"legacy-10", "no-sv", "legacy-10+no-sv", "sv-unknown", "legacy-10+sv-unknown", "suites-unknown", "no-groups", "no-keyshare", "no-sigalgs", "no-exts", "version", "compression"}

func c08Counts(tier string) (int, int) {
	if tier == "thorough" {
		return 0, 100000000
	}

	return 0, 10000000
}

func c08Gen(r *rand.Rand, tier string, idx int) any {
	p := &C08Params{Mode: []string{"U", "any", "any"}[r.IntN(3)], Target: []string{"c", "s", "both"}[r.IntN(3)]}
	if r.IntN(2) == 0 {
		vs := Variants()
		v := vs[r.IntN(len(vs))]
		if v.Resume {
			v = vs[0]
		}
		p.Variant = v.Name
	} else {
		ds := DataCfgs()
		p.Cfg = ds[r.IntN(len(ds))].Name
	}
	if r.IntN(12) == 0 {
		return &C08Params{Mode: "U", Phase: "listener", N: 60 + r.IntN(300), SpanMs: []int{0, 20, 200, 800}[r.IntN(4)], Clients: 1 + r.IntN(3)}
	}
	p.N = 1 + r.IntN(60)
	p.SpanMs = []int{5, 40, 200, 1500}[r.IntN(4)]
	if p.Cfg != "" && r.IntN(2) == 0 {
		p.Phase = "est"
		p.Mode = []string{"U", "U", "K", "R", "F", "C"}[r.IntN(6)]
		p.N = 1 + r.IntN(40)
		if p.Mode == "R" {
			p.N = 50 + r.IntN(1000)
		}
		if p.Mode == "F" {
			p.N = 900 + r.IntN(900)
			p.Flood = c08FloodShapes[r.IntN(len(c08FloodShapes))]
		}

		return p
	}
	if p.Mode == "any" && r.IntN(4) == 0 {
		p.HelloAlt = c08HelloAlts[r.IntN(len(c08HelloAlts))]
	}
	if p.Mode == "any" && p.Variant != "" && r.IntN(2) == 0 {
		p.Mangle = 1 + r.Uint64N(1<<40)
		p.N = r.IntN(4) // little else, so that the handshake lives to decode the damaged message
	}
	if p.Mode == "any" && r.IntN(5) == 0 {
		p.Flood = []string{"frags", "frags", "tiny", "empty", "empty-nonempty", "overlap", "seqs", "run", "run"}[r.IntN(9)]
		p.N = 200 + r.IntN(1200)
		if p.Flood != "frags" {
			p.N = 900 + r.IntN(900) // the count limit is the one at stake
		}
	}

	return p
}

func putU16(b []byte, v int) { b[0], b[1] = byte(v>>8), byte(v) }
func putU24(b []byte, v int) { b[0], b[1], b[2] = byte(v>>16), byte(v>>8), byte(v) }

// hostileDatagram builds one hostile datagram. uOnly restricts to datagrams
// that are unparseable from the first byte or consist of records that claim
// protection (and therefore cannot authenticate once altered).
func hostileDatagram(r *rand.Rand, captured [][]byte, cidLen int, uOnly bool) (data []byte, kind string) {
	pick := func() []byte {
		if len(captured) == 0 {
			return []byte{22, 0xfe, 0xfd, 0, 0, 0, 0, 0, 0, 0, 1, 0, 0}
		}

		return append([]byte(nil), captured[r.IntN(len(captured))]...)
	}
	randBytes := func(n int) []byte {
		b := make([]byte, n)
		for i := range b {
			b[i] = byte(r.IntN(256))
		}

		return b
	}
	protectedOnly := func(d []byte) bool {
		recs, err := ParseDatagram(d, cidLen)
		if err != nil || len(recs) == 0 {
			return false
		}
		for _, rc := range recs {
			if !rc.Unified && (rc.Epoch == 0 || rc.Type == CTChangeCipherSpec) {
				return false
			}
		}

		return true
	}
	// in mode U nothing the adversary sends may contain a record that still authenticates: a
	// datagram of several records with one of them damaged would deliver the others early
	// (reordering by an on-path party, which is C02's fault model, not "unauthenticatable input")
	single := func(d []byte) bool {
		recs, err := ParseDatagram(d, cidLen)

		return err == nil && len(recs) == 1
	}
	for tries := 0; tries < 50; tries++ {
		switch m := r.IntN(12); m {
		case 0: // pure noise that is not a record from the first byte
			d := randBytes(r.IntN(200))
			if len(d) > 0 {
				d[0] = []byte{0, 1, 19, 27, 64, 128, 255, 0x40, 0x1f}[r.IntN(9)]
			}

			return d, "noise"
		case 1: // short header
			d := pick()
			cut := r.IntN(min(len(d), 14+cidLen) + 1)
			d = d[:cut]
			if uOnly && cut >= 13 {
				continue
			}

			return d, "short-header"
		case 2: // protected record with flipped bits
			d := pick()
			if !protectedOnly(d) || (uOnly && !single(d)) {
				continue
			}
			orig := append([]byte(nil), d...)
			for k := 0; k < 1+r.IntN(4); k++ {
				bit := 8*min(13+cidLen, len(d)-1) + r.IntN(8*(len(d)-min(13+cidLen, len(d)-1)))
				d[bit/8] ^= 1 << (bit % 8)
			}
			if bytes.Equal(d, orig) {
				continue // the same bit flipped twice: that would be the genuine datagram delivered early
			}

			return d, "protected-bitflip"
		case 3: // protected record truncated / extended
			d := pick()
			if !protectedOnly(d) || (uOnly && !single(d)) {
				continue
			}
			if r.IntN(2) == 0 || uOnly {
				d = d[:r.IntN(len(d))]
			} else {
				d = append(d, randBytes(1+r.IntN(40))...)
			}
			if uOnly && len(d) < 13 {
				return d, "short-header"
			}

			return d, "protected-resized"
		case 4: // unified-header garbage
			d := randBytes(3 + r.IntN(120))
			d[0] = 0x20 | byte(r.IntN(32))

			return d, "unified-garbage"
		case 5: // legacy header claiming protection with random body
			body := randBytes(r.IntN(100))
			h := []byte{[]byte{21, 22, 23, 25, 26}[r.IntN(5)], 0xfe, 0xfd, 0, byte(1 + r.IntN(3)), 0, 0, 0, 0, byte(r.IntN(4)), byte(r.IntN(256))}
			if h[0] == CTCID {
				h = append(h, randBytes(cidLen)...)
			}
			l := len(body)
			if r.IntN(3) == 0 {
				l = []int{0, l + 1, l - 1, 0xffff, 1}[r.IntN(5)]
				if l < 0 {
					l = 0
				}
			}
			h = append(h, byte(l>>8), byte(l))

			return append(h, body...), "legacy-protected-garbage"
		}
		if uOnly {
			continue
		}
		switch r.IntN(8) {
		case 7: // a complete, tiny handshake message whose bytes take the boundary values of length prefixes
			n := r.IntN(7)
			body := make([]byte, n)
			if r.IntN(2) == 0 {
				for i := range body {
					body[i] = []byte{0, 0, 0, 1, 2, byte(n), byte(n - i), 0xff}[r.IntN(8)]
				}
			} // else: all length prefixes zero
			h := make([]byte, 12)
			// the messages an endpoint waits for in the middle of a handshake, then everything else
			h[0] = []byte{16, 16, 12, 12, 11, 14, 15, 20, 0, 1, 2, 3, 4, 8, 13, 24, 25}[r.IntN(17)]
			putU24(h[1:], n)
			putU16(h[4:], r.IntN(5))
			putU24(h[9:], n)
			body = append(h, body...)
			rec := []byte{CTHandshake, 0xfe, 0xfd, 0, 0, 0, 0, 0, 0, byte(r.IntN(256)), byte(r.IntN(256)), byte(len(body) >> 8), byte(len(body))}

			return append(rec, body...), "tiny-message"
		case 0: // any captured datagram with flipped bits anywhere
			d := pick()
			for k := 0; k < 1+r.IntN(6); k++ {
				bit := r.IntN(8 * len(d))
				d[bit/8] ^= 1 << (bit % 8)
			}

			return d, "bitflip"
		case 1: // record header fields
			d := pick()
			if len(d) >= 13 {
				switch r.IntN(5) {
				case 0:
					d[0] = []byte{20, 21, 22, 23, 24, 25, 26, 0, 255}[r.IntN(9)]
				case 1:
					putU16(d[3:], []int{0, 1, 2, 3, 0xffff, 0x7fff}[r.IntN(6)])
				case 2:
					copy(d[5:11], randBytes(6))
				case 3:
					putU16(d[11:], []int{0, 1, len(d) - 13, len(d) - 12, len(d) - 14, 0xffff, 0x4000}[r.IntN(7)]&0xffff)
				case 4:
					d[1], d[2] = byte(r.IntN(256)), byte(r.IntN(256))
				}
			}

			return d, "record-field"
		case 2: // handshake fragment header fields
			d := pick()
			if len(d) >= 25 && d[0] == CTHandshake && d[3] == 0 && d[4] == 0 {
				h := d[13:]
				switch r.IntN(6) {
				case 0:
					putU24(h[1:], []int{0, 1, 0xffffff, 2000001, 65536, r.IntN(1 << 24)}[r.IntN(6)])
				case 1:
					putU16(h[4:], r.IntN(8))
				case 2:
					putU24(h[6:], []int{0, 1, 0xffffff, r.IntN(1 << 24)}[r.IntN(4)])
				case 3:
					putU24(h[9:], []int{0, 1, len(h) - 12, len(h) - 11, 0xffffff, r.IntN(1 << 16)}[r.IntN(6)])
				case 4:
					h[0] = byte(r.IntN(26))
				case 5:
					k := 12 + r.IntN(len(h)-11)
					if k < len(h) {
						h[k] = byte(r.IntN(256))
					}
				}
			}

			return d, "handshake-field"
		case 3: // synthetic fragment for a current or future message
			flen := r.IntN(64)
			total := []int{0, flen, flen + 1, 1999999, 2000000, 0xffffff, r.IntN(1 << 20)}[r.IntN(7)]
			off := []int{0, 0, r.IntN(total + 1), total, 0xffffff}[r.IntN(5)]
			h := make([]byte, 12)
			h[0] = []byte{1, 2, 11, 12, 14, 16, 20, 3}[r.IntN(8)]
			putU24(h[1:], total)
			putU16(h[4:], r.IntN(6))
			putU24(h[6:], off)
			putU24(h[9:], flen)
			body := append(h, randBytes(flen)...)
			rec := []byte{CTHandshake, 0xfe, 0xfd, 0, 0, 0, 0, byte(r.IntN(256)), byte(r.IntN(256)), byte(r.IntN(256)), byte(r.IntN(256)), byte(len(body) >> 8), byte(len(body))}

			return append(rec, body...), "synthetic-fragment"
		case 4: // hello with broken inner lengths
			d := pick()
			if len(d) > 13+12+40 && d[0] == CTHandshake && d[3] == 0 && d[4] == 0 && (d[13] == 1 || d[13] == 2) {
				k := 13 + 12 + 34 + r.IntN(min(60, len(d)-(13+12+34)))
				d[k] = []byte{0, 1, 0xff, 0x7f, byte(r.IntN(256))}[r.IntN(5)]
			}

			return d, "hello-inner-length"
		case 5: // several genuine records glued in odd ways
			a, b := pick(), pick()
			d := append(a, b[:r.IntN(len(b)+1)]...)

			return d, "glued"
		case 6: // cleartext alert
			return []byte{CTAlert, 0xfe, 0xfd, 0, 0, 0, 0, 0, 0, byte(r.IntN(256)), byte(r.IntN(256)), 0, 2, byte(1 + r.IntN(2)), byte(r.IntN(120))}, "cleartext-alert"
		}
	}

	return []byte{0}, "noise"
}

var c08FloodShapes = []string{"frags", "tiny", "empty", "empty-nonempty", "overlap", "seqs", "run"}

// floodFragment builds the i-th datagram of a reassembly flood: one cleartext handshake fragment
// of a future message, in one of several shapes. Message sequence numbers lie just ahead of the
// handshake (overtaken and pruned as it proceeds) or far ahead of it (never reached: whatever is
// buffered for them stays); record numbers rise in injection order (else the replay window
// discards most of the flood before it reaches the reassembly buffer).
func floodFragment(hr *rand.Rand, shape string, i, pick, recSeq int) []byte {
	msgLen, off, fl, seq := 1900000, i*1500, 1400, []int{1 + hr.IntN(3), 30 + hr.IntN(4), 1000 + hr.IntN(2), 65535}[pick%4]
	switch shape {
	case "tiny": // one byte each: the fragment count is the limit that matters
		msgLen, off, fl = 1900000, i*3, 1
	case "empty": // empty fragments of an empty message, each at its own offset
		msgLen, off, fl = 0, 1+i, 0
	case "empty-nonempty": // empty fragments of a non-empty message
		msgLen, off, fl = 50000, i, 0
	case "overlap": // overlapping fragments with shifting boundaries
		msgLen, off, fl = 60000, i*7, 100
	case "seqs": // one small fragment for each of many future messages
		msgLen, off, fl, seq = 300, 0, 20, 1+i
	case "run": // small COMPLETE messages with consecutive message_seq: each one that continues the sequence is surfaced
		msgLen, off, fl, seq = 5, 0, 5, i&0xffff
	}
	h := make([]byte, 12)
	h[0] = []byte{11, 14, 12, 2}[hr.IntN(4)]
	if shape == "run" {
		h[0] = []byte{0, 4, 4, 24}[hr.IntN(4)] // types no flight of a DTLS 1.2 handshake is waiting for
	}
	putU24(h[1:], msgLen)
	putU16(h[4:], seq)
	putU24(h[6:], off)
	putU24(h[9:], fl)
	body := append(h, make([]byte, fl)...)
	rec := []byte{CTHandshake, 0xfe, 0xfd, 0, 0, 0, 0, 1, byte(recSeq >> 16), byte(recSeq >> 8), byte(recSeq), byte(len(body) >> 8), byte(len(body))}

	return append(rec, body...)
}

func c08CheckSizes(rc *RunCtx, name string, c *dtls.Conn) bool {
	z := dtls.VerifSizesOf(c)
	s := rc.S
	upd := func(k string, v int) {
		if v > s.Probes["max:"+k] {
			s.Probes["max:"+k] = v
		}
	}
	upd("queued", z.QueuedDatagrams)
	upd("replay-detectors", z.ReplayDetectors)
	upd("hs-cache", z.HandshakeCache)
	upd("frag-count", z.FragmentCount)
	upd("frag-bytes", z.FragmentBytes)
	upd("frag-messages", z.FragmentMessages)
	upd("pending-acks", z.PendingACKs)
	switch {
	case z.QueuedDatagrams > 100:
		rc.Violate("bloat:queue", "%s holds %d queued datagrams (documented limit 100)", name, z.QueuedDatagrams)
	case z.FragmentCount > 1000 || z.FragmentBytes > 2000000:
		rc.Violate("bloat:fragments", "%s buffers %d fragments / %d bytes (documented limits 1000 / 2 MB)", name, z.FragmentCount, z.FragmentBytes)
	case z.HandshakeCache > 300 && z.HandshakeCacheDup > z.HandshakeCache/2:
		rc.Violate("bloat:handshake-cache:retransmitted-copies", "%s caches %d handshake messages, %d of them byte-identical copies of messages cached before (a handshake has a few dozen messages; one more copy is kept per retransmission)", name, z.HandshakeCache, z.HandshakeCacheDup)
	case z.HandshakeCache > 300:
		phase := "handshaking"
		if len(rc.R.Class) > 4 && rc.R.Class[:4] == "est/" {
			phase = "established"
		}
		rc.Violate("bloat:handshake-cache:unsolicited-messages:"+phase, "%s caches %d handshake messages (%d of them copies); a handshake has a few dozen: every complete cleartext handshake message that continues the message sequence is kept, whatever its type and whatever the handshake state", name, z.HandshakeCache, z.HandshakeCacheDup)
	case z.ReplayDetectors > int(max(z.RemoteEpoch, z.LocalEpoch))+4:
		rc.Violate("bloat:replay-windows", "%s allocated %d per-epoch replay windows at epoch %d/%d", name, z.ReplayDetectors, z.LocalEpoch, z.RemoteEpoch)
	case z.LocalSeqEpochs > int(max(z.RemoteEpoch, z.LocalEpoch))+4 || z.RemoteSeqEpochs > int(max(z.RemoteEpoch, z.LocalEpoch))+4:
		rc.Violate("bloat:seq-tables", "%s grew its per-epoch sequence tables to %d/%d at epoch %d/%d", name, z.LocalSeqEpochs, z.RemoteSeqEpochs, z.LocalEpoch, z.RemoteEpoch)
	default:
		return true
	}

	return false
}

func c08Run(rc *RunCtx, params any) {
	p := params.(*C08Params)
	s := rc.S
	if p.Phase == "listener" {
		c08ListenerRun(rc, p)

		return
	}
	if p.Phase == "est" {
		c08EstRun(rc, p)

		return
	}
	var cspec, sspec EpSpec
	if p.Cfg != "" {
		cfg, ok := dataCfgByName(p.Cfg)
		if !ok {
			rc.Violate("harness", "unknown cfg")

			return
		}
		cspec, sspec = cfg.C, cfg.S
		rc.R.Class = "data/" + cfg.Name + "/" + p.Mode
	} else {
		v, ok := variantByName(p.Variant)
		if !ok {
			v, _ = variantByName("12-cert")
		}
		cspec, sspec = v.C, v.S
		rc.R.Class = "hs/" + v.Name + "/" + p.Mode
	}
	rc.Note("proto", protoTag(cspec, sspec))
	n := NewSimNet(s, NetRules{})
	pair, err := NewPair(s, n, cspec, sspec, nil)
	if err != nil {
		rc.Violate("harness", "config: %v", err)

		return
	}
	rc.R.NonTriv = true
	third := Addr(9, 999)
	floodSeq := 0
	// schedule the hostile datagrams
	for i := 0; i < p.N; i++ {
		i := i
		d := s.Ch.Draw("hostile-at", func(r *rand.Rand) Dec {
			return Dec{A: r.Int64N(int64(p.SpanMs)*int64(time.Millisecond) + 1), B: int64(r.IntN(3)), C: int64(r.IntN(8))}
		})
		s.After(time.Duration(d.A)+time.Duration(i)*time.Microsecond+91*time.Nanosecond, func() {
			toServer := p.Target == "s" || (p.Target == "both" && d.B%2 == 0)
			dst, from, to, cid := "s", pair.CAddr, pair.SAddr, len(sspec.CIDOf())
			if !toServer {
				dst, from, to, cid = "c", pair.SAddr, pair.CAddr, len(cspec.CIDOf())
			}
			if d.C == 0 {
				from = third // off-path sender with an unrelated source address
			}
			// material: what the genuine peer has emitted towards dst so far
			var captured [][]byte
			for _, em := range n.Emits {
				if em.Ep != dst {
					captured = append(captured, em.Data)
				}
			}
			hd := s.Ch.Draw("hostile", func(r *rand.Rand) Dec { return Dec{A: int64(r.Uint32()) + 1} })
			hr := rand.New(rand.NewPCG(uint64(hd.A), 77))
			var data []byte
			var kind string
			if p.Flood != "" {
				floodSeq++
				data, kind = floodFragment(hr, p.Flood, i, int(hd.A), floodSeq), "fragment-flood-"+p.Flood
			} else {
				data, kind = hostileDatagram(hr, captured, cid, p.Mode == "U")
			}
			s.Fault("hostile:" + kind)
			n.InjectNow(from, to, data)
		})
	}
	if p.HelloAlt != "" && p.Mode == "any" {
		col := NewHsCollector()
		sent := false
		n.OnEmit = func(em *Emission) {
			if sent || em.Ep != "c" {
				return
			}
			col.Feed(*em, 0)
			chs := col.Of("c", HTClientHello)
			if len(chs) == 0 {
				return
			}
			sent = true
			alt := wrapCH(alterCH(chs[0].Body, p.HelloAlt), 0, 0x300000)
			s.Fault("hostile:hello-" + p.HelloAlt)
			s.After(50*time.Microsecond, func() { n.InjectNow(pair.CAddr, pair.SAddr, alt) })
		}
	}
	if p.Mangle != 0 && p.Mode == "any" {
		mr := rand.New(rand.NewPCG(p.Mangle, 99))
		ep := []string{"c", "s"}[mr.IntN(2)]
		typ := []byte{HTCertificate, HTCertificate, HTCertificate, HTServerKeyExchange, HTServerKeyExchange, 13, 13, HTClientKeyExchange, 15, HTServerHello, HTClientHello, HTHelloVerifyRequest}[mr.IntN(12)]
		sel := mr.Uint64()
		n.Rewrite = func(e *Emission) []byte {
			if e.Ep != ep {
				return e.Data
			}
			out, changed := rewriteUnfragmented(e.Data, typ, func(body []byte) []byte {
				r := rand.New(rand.NewPCG(sel, uint64(len(body)))) // every copy of the message gets the same damage
				k := r.IntN(len(body) + 1)
				switch r.IntN(4) {
				case 0, 1:
					k = min(k, r.IntN(9)) // inside the first length prefixes
				case 2:
					k = max(0, len(body)-r.IntN(5)) // at the very end
				}
				nb := append([]byte(nil), body[:k]...)
				for j := r.IntN(3); j > 0; j-- {
					nb = append(nb, byte(r.IntN(256)))
				}
				switch r.IntN(4) { // leading length prefix agrees with what is left
				case 0:
					if len(nb) >= 3 {
						putU24(nb, len(nb)-3)
					}
				case 1:
					if len(nb) >= 2 {
						putU16(nb, len(nb)-2)
					}
				case 2:
					if len(nb) >= 1 {
						nb[0] = byte(len(nb) - 1)
					}
				}

				return nb
			})
			if changed > 0 {
				s.Fault(fmt.Sprintf("mangled-in-transit:%d", typ))
			}

			return out
		}
	}
	pair.StartHandshakes(0)
	ok := true
	sizeCheck := func(step int64) {
		if ok && step%8 == 0 {
			ok = c08CheckSizes(rc, "client", pair.Client) && c08CheckSizes(rc, "server", pair.Server)
		}
	}
	s.OnStep = sizeCheck
	span := time.Duration(p.SpanMs) * time.Millisecond
	horizon := span + c02Bound
	if p.Mode != "U" {
		horizon = span + 40*time.Second // safety only: no need to sit through a derailed handshake's back-off
	}
	s.Run(func() bool { return s.Now() > span+time.Millisecond && pair.BothDone() }, horizon)
	s.OnStep = nil
	if !ok || len(s.Panics) > 0 || s.Overrun() {
		pair.Teardown()

		return
	}
	c08CheckSizes(rc, "client", pair.Client)
	c08CheckSizes(rc, "server", pair.Server)
	if rc.R.Violation != "" {
		pair.Teardown()

		return
	}
	if p.Mode == "U" {
		// nothing injected was parseable-and-unprotected: the genuine traffic must be served
		switch {
		case (pair.CHs.Done && pair.CHs.Err != nil) || (pair.SHs.Done && pair.SHs.Err != nil):
			rc.Violate("handshake-killed:"+errClass(pair.CHs.Err)+"|"+errClass(pair.SHs.Err), "unparseable/unauthenticatable datagrams made the genuine handshake fail: client %v, server %v", pair.CHs.Err, pair.SHs.Err)
		case !pair.BothDone():
			rc.Violate(fmt.Sprintf("wedged:c@%s:s@%s", pair.Env.FSMState("c"), pair.Env.FSMState("s")), "after %d unparseable/unauthenticatable datagrams the genuine handshake did not complete within %v (client done=%v, server done=%v)", p.N, c02Bound, pair.CHs.Done, pair.SHs.Done)
		case !pair.BothOK():
			rc.Violate("handshake-killed:"+errClass(pair.CHs.Err)+"|"+errClass(pair.SHs.Err), "unparseable/unauthenticatable datagrams made the genuine handshake fail: client %v, server %v", pair.CHs.Err, pair.SHs.Err)
		default:
			if DataFlows(rc, pair, 2) {
				s.Probe("served-after-hostile-input")
			}
		}
	} else if pair.BothOK() {
		s.Probe("completed-despite-hostile-input")
	} else {
		s.Probe("handshake-derailed-by-parseable-cleartext-injection")
	}
	pair.Teardown()
}

func init() {
	Register(&Scenario{
		ID:              "C08",
		BudgetIsVerdict: true,
		Counts:          c08Counts,
		Gen:             c08Gen,
		NewParams:       func() any { return &C08Params{} },
		Run:             c08Run,
	})
}
