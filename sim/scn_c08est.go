package verifsim

import (
	"bytes"
	"math/rand/v2"
	"time"

	dtls "github.com/pion/dtls/v3"
)

// C08, established-session phase: hostile datagrams against every suite's decrypt path.
//
// Mode "U": only input that cannot authenticate (unparseable bytes, damaged records, and the
// CBC constructions below, all computable from captured ciphertext alone); afterwards genuine
// data must still flow. Mode "K": the peer's own keys (reference record layer) protect content
// that is malformed inside; only the safety clauses (panic, livelock, bounded buffers) apply.

// cbcTails builds, from one captured CBC-protected record, records made of its final blocks.
// In CBC the plaintext of block n is D(C_n) xor C_{n-1}: keeping the last blocks of a genuine
// record keeps their (genuine) padding, while the MAC and data in front of it are gone; xoring
// a constant into C_{n-1} turns a final block that is all padding into any other padding value.
func cbcTails(r *rand.Rand, rec Rec) [][]byte {
	var out [][]byte
	body := rec.Body
	if rec.Unified || rec.Epoch == 0 || len(body)%16 != 0 || len(body) < 48 {
		return nil
	}
	hdr := rec.Raw[:rec.HdrLen]
	mk := func(b []byte, seqBump byte) []byte {
		h := append([]byte(nil), hdr...)
		h[10] += seqBump // a sequence number the replay window has not seen
		h[len(h)-2], h[len(h)-1] = byte(len(b)>>8), byte(len(b))

		return append(h, b...)
	}
	for _, blocks := range []int{3, 4, 5} {
		if len(body) < 16*blocks {
			continue
		}
		tail := append([]byte(nil), body[len(body)-16*blocks:]...)
		out = append(out, mk(tail, byte(1+r.IntN(40))))
		// the same with the final plaintext block xored by a constant (valid only if it was all padding)
		x := append([]byte(nil), tail...)
		delta := byte(r.IntN(32))
		for i := len(x) - 32; i < len(x)-16; i++ {
			x[i] ^= delta
		}
		out = append(out, mk(x, byte(1+r.IntN(40))))
	}

	return out
}

// keyedMalformed seals, under the sender's real keys, content that is malformed inside.
func keyedMalformed(r *rand.Rand, ref *Ref12, keys13 *Keys13, epoch13 uint16, fromClient bool, cid []byte, seq uint64) ([]byte, string) {
	junk := func(n int) []byte {
		b := make([]byte, n)
		for i := range b {
			b[i] = []byte{0, 0, 1, 2, 0xff, byte(r.IntN(256))}[r.IntN(6)]
		}

		return b
	}
	hs := func(typ byte, total, off, flen, n int) []byte {
		h := make([]byte, 12)
		h[0] = typ
		putU24(h[1:], total)
		putU16(h[4:], r.IntN(6))
		putU24(h[6:], off)
		putU24(h[9:], flen)

		return append(h, junk(n)...)
	}
	var ctype byte
	var plain []byte
	kind := ""
	switch r.IntN(9) {
	case 0:
		ctype, plain, kind = CTAppData, nil, "empty-application-data"
	case 1:
		ctype, plain, kind = CTAlert, junk(r.IntN(4)), "short-alert"
	case 2:
		ctype, plain, kind = byte([]int{0, 19, 24, 27, 63, 99, 255}[r.IntN(7)]), junk(r.IntN(20)), "unknown-inner-type"
	case 3:
		n := r.IntN(8)
		ctype, plain, kind = CTHandshake, hs(byte([]int{0, 1, 4, 11, 16, 20, 24, 25}[r.IntN(8)]), n, 0, n, n), "tiny-handshake"
	case 4:
		ctype, plain, kind = CTHandshake, hs(byte([]int{4, 20, 24}[r.IntN(3)]), []int{0, 1999999, 0xffffff}[r.IntN(3)], []int{0, 1, 0xffffff}[r.IntN(3)], r.IntN(30), r.IntN(30)), "handshake-bad-lengths"
	case 5:
		ctype, plain, kind = CTHandshake, junk(r.IntN(12)), "handshake-shorter-than-header"
	case 6:
		ctype, plain, kind = CTChangeCipherSpec, junk(r.IntN(3)), "protected-ccs"
	case 7:
		ctype, plain, kind = CTACK, junk(r.IntN(40)), "ack-odd-length"
	default:
		ctype, plain, kind = 0, nil, "inner-plaintext-all-zero"
	}
	pad := []int{0, 0, 1, 17, 300}[r.IntN(5)]
	if keys13 != nil {
		return keys13.Seal13(epoch13, seq, cid, ctype, plain, pad), kind
	}
	if len(cid) == 0 {
		pad = 0
		if ctype == 0 {
			ctype = 99
		}
	}

	return ref.Seal(fromClient, ctype, 1, seq, cid, len(cid) > 0, plain, pad), kind
}

func c08EstRun(rc *RunCtx, p *C08Params) {
	s := rc.S
	cfg, ok := dataCfgByName(p.Cfg)
	if !ok {
		rc.Violate("harness", "unknown cfg")

		return
	}
	rc.R.Class = "est/" + cfg.Name + "/" + p.Mode
	rc.R.NonTriv = true
	rc.Note("proto", protoTag(cfg.C, cfg.S))
	A := newC05Session(rc, cfg, "c", "s")
	if A == nil {
		return
	}
	pair := A.pair
	defer pair.Teardown()
	rdC, rdS := pair.StartReader("c"), pair.StartReader("s")
	var sentC, sentS [][]byte
	write := func(ep string, i, sz int) bool {
		pl := Payload(ep, 8, i, sz)
		if err := pair.WriteSync(ep, pl, 10*time.Second); err != nil {
			return false
		}
		if ep == "c" {
			sentC = append(sentC, pl)
		} else {
			sentS = append(sentS, pl)
		}

		return true
	}
	// genuine traffic whose lengths put the padding of block ciphers at every alignment
	sizes := s.Ch.Draw("sizes", func(r *rand.Rand) Dec { return Dec{A: int64(r.Uint32()) + 1} })
	sr := rand.New(rand.NewPCG(uint64(sizes.A), 5))
	for i := 0; i < 6; i++ {
		sz := []int{0, 11, 12, 15, 16, 27, 28, 31, 32, 43, 44, sr.IntN(80), sr.IntN(1200)}[sr.IntN(13)]
		if !write([]string{"c", "s"}[i%2], i, sz) {
			rc.Violate("harness-write", "genuine write failed before any hostile input")

			return
		}
	}
	if sr.IntN(2) == 0 {
		s.Run(func() bool { return false }, 200*time.Millisecond) // genuine records arrive before their hostile copies
	} else {
		s.Settle()
	}
	// reference keys for mode K
	var refs [2]*c05Session // [0]: records sent by the client, [1]: by the server
	if p.Mode == "K" {
		for i, from := range []string{"c", "s"} {
			x := &c05Session{pair: pair, net: A.net, suite: A.suite}
			if !x.refFor(rc, cfg, from) {
				return
			}
			refs[i] = x
		}
	}
	third := Addr(9, 999)
	ok = true
	spoofSeq := uint64(0x200000)
	futureMsg := 0
	for j := 0; j < p.N && ok; j++ {
		d := s.Ch.Draw("hostile-at", func(r *rand.Rand) Dec {
			return Dec{A: int64(r.Uint32()) + 1, B: int64(r.IntN(2)), C: int64(r.IntN(8))}
		})
		hr := rand.New(rand.NewPCG(uint64(d.A), 78))
		toServer := p.Target == "s" || (p.Target == "both" && d.B == 0)
		dst, from, to := "s", pair.CAddr, pair.SAddr
		cidLen, peerCID := len(cfg.S.CIDOf()), cfg.S.CIDOf()
		if !toServer {
			dst, from, to = "c", pair.SAddr, pair.CAddr
			cidLen, peerCID = len(cfg.C.CIDOf()), cfg.C.CIDOf()
		}
		if d.C == 0 && p.Mode != "K" {
			from = third
		}
		var captured [][]byte
		for _, em := range A.net.Emits {
			if em.Ep != dst {
				captured = append(captured, em.Data)
			}
		}
		var data []byte
		kind := ""
		switch {
		case p.Mode == "K":
			x := refs[0]
			if !toServer {
				x = refs[1]
			}
			var k13 *Keys13
			epoch := uint16(3)
			if cfg.C.MaxVer == 13 {
				sec := x.dec13.Secrets
				for e := range sec {
					if e > epoch {
						epoch = e
					}
				}
				k13, _ = NewKeys13(A.suite, sec[epoch])
			}
			data, kind = keyedMalformed(hr, x.ref12, k13, epoch, toServer, peerCID, uint64(1000+j))
			kind = "keyed:" + kind
		case p.Mode == "C":
			// records that claim no protection at all (epoch 0), which an established session has no
			// use for: whoever can spoof the peer's address can write them without any key
			spoofSeq++
			data, kind = cleartextRecord(hr, spoofSeq)
		case p.Mode == "F":
			// a reassembly flood against an established session: cleartext fragments of future
			// handshake messages, which such a session has no use for
			spoofSeq++
			data, kind = floodFragment(hr, p.Flood, j, int(d.A), int(spoofSeq&0xffffff)), "fragment-flood-"+p.Flood
		case p.Mode == "R":
			// a spoofed retransmission: one of the peer's cleartext handshake datagrams again,
			// with record numbers the replay window has not seen
			var clear [][]byte
			for _, c := range captured {
				if recs, perr := ParseDatagram(c, cidLen); perr == nil && len(recs) > 0 && !recs[0].Unified && recs[0].Epoch == 0 && recs[0].Type == CTHandshake {
					clear = append(clear, c)
				}
			}
			if len(clear) > 0 && hr.IntN(2) == 0 {
				data, kind = freshRecordNumbers(clear[hr.IntN(len(clear))], &spoofSeq), "spoofed-retransmission"
			} else if len(clear) > 0 {
				// small complete handshake messages that continue the peer's message sequence
				maxSeq := 0
				for _, c := range clear {
					recs, _ := ParseDatagram(c, cidLen)
					for _, r := range recs {
						for _, f := range r.Hs {
							maxSeq = max(maxSeq, int(f.MsgSeq))
						}
					}
				}
				futureMsg++
				h := make([]byte, 12)
				h[0] = []byte{11, 14, 12, 16, 20, 1}[hr.IntN(6)]
				putU24(h[1:], 5)
				putU16(h[4:], (maxSeq+futureMsg)&0xffff)
				putU24(h[9:], 5)
				body := append(h, 1, 2, 3, 4, 5)
				spoofSeq++
				rec := []byte{CTHandshake, 0xfe, 0xfd, 0, 0, byte(spoofSeq >> 40), byte(spoofSeq >> 32), byte(spoofSeq >> 24), byte(spoofSeq >> 16), byte(spoofSeq >> 8), byte(spoofSeq), byte(len(body) >> 8), byte(len(body))}
				data, kind = append(rec, body...), "spoofed-next-handshake-message"
			}
		case cfg.C.MaxVer == 12 && hr.IntN(12) == 0:
			// a change_cipher_spec record that names the current protected epoch: it carries no
			// MAC, so inside a protected epoch it is a record that cannot authenticate
			seq := uint64(hr.IntN(40))
			data = []byte{CTChangeCipherSpec, 0xfe, 0xfd, 0, 1, 0, 0, 0, 0, byte(seq >> 8), byte(seq), 0, 1, 1}
			kind = "ccs-in-protected-epoch"
		case len(captured) > 0 && hr.IntN(3) == 0:
			recs, _ := ParseDatagram(captured[hr.IntN(len(captured))], cidLen)
			if len(recs) > 0 {
				if t := cbcTails(hr, recs[0]); len(t) > 0 {
					data, kind = t[hr.IntN(len(t))], "cbc-tail"
				}
			}
		}
		if data == nil {
			data, kind = hostileDatagram(hr, captured, cidLen, true)
		}
		s.Fault("hostile:" + kind)
		A.net.InjectNow(from, to, data)
		s.Settle()
		ok = c08CheckSizes(rc, "client", pair.Client) && c08CheckSizes(rc, "server", pair.Server)
		if p.Mode == "R" {
			s.Run(func() bool { return false }, 3*time.Millisecond) // let the answer (if any) leave
		}
		if ok && len(s.Panics) == 0 && j%5 == 4 && p.Mode == "U" {
			write([]string{"c", "s"}[j%2], 100+j, 12+hr.IntN(40))
		}
	}
	if !ok || len(s.Panics) > 0 || s.Overrun() {
		return
	}
	if p.Mode == "R" {
		s.Probe("survived-spoofed-retransmissions")
	}
	if p.Mode == "K" {
		// a peer that authenticates malformed content may be answered with a fatal alert and a
		// closed connection; nothing more is required than having survived it
		s.Probe("survived-keyed-malformed-content")

		return
	}
	// modes U and F: the endpoint keeps serving valid traffic
	what, tag := "unauthenticatable datagrams", ""
	if p.Mode == "F" {
		what, tag = "cleartext fragments of future handshake messages ("+p.Flood+")", ":after-fragment-flood"
	}
	if p.Mode == "C" {
		what, tag = "cleartext (epoch 0) records", ":after-cleartext-records"
	}
	if p.Mode == "R" {
		what, tag = "spoofed cleartext retransmissions / next handshake messages", ":after-spoofed-retransmissions"
	}
	for i := 0; i < 2; i++ {
		if !write("c", 200+i, 30+i) || !write("s", 200+i, 30+i) {
			rc.Violate("service-lost:write"+tag, "after %d %s a genuine Write failed", p.N, what)

			return
		}
	}
	s.Run(func() bool { return len(rdS.Got) >= len(sentC) && len(rdC.Got) >= len(sentS) }, 10*time.Second)
	if len(rdS.Got) != len(sentC) || len(rdC.Got) != len(sentS) {
		rc.Violate("service-lost:read"+tag, "after %d %s the server read %d of %d and the client %d of %d genuine payloads (reader errors: %v %v)", p.N, what, len(rdS.Got), len(sentC), len(rdC.Got), len(sentS), rdS.Errs, rdC.Errs)

		return
	}
	// datagrams may overtake each other (latency jitter): compare as multisets
	same := func(got, sent [][]byte) bool {
		used := make([]bool, len(sent))
	next:
		for _, g := range got {
			for i, w := range sent {
				if !used[i] && bytes.Equal(g, w) {
					used[i] = true

					continue next
				}
			}

			return false
		}

		return true
	}
	if !same(rdS.Got, sentC) || !same(rdC.Got, sentS) {
		rc.Violate("data-altered", "a payload returned by Read is not one the peer wrote (or one was returned twice)")

		return
	}
	s.Probe("served-after-hostile-input:established")
	_ = dtls.ErrConnClosed
}

// freshRecordNumbers returns a copy of a datagram whose cleartext (epoch 0) records carry record
// numbers taken from *next (a peer's retransmission carries fresh numbers, else the replay window
// drops it before the handshake layer sees it).
func freshRecordNumbers(d []byte, next *uint64) []byte {
	data := append([]byte(nil), d...)
	off := 0
	if recs, err := ParseDatagram(data, 0); err == nil {
		for _, r := range recs {
			if !r.Unified && r.Epoch == 0 {
				*next++
				for k := 0; k < 6; k++ {
					data[off+5+k] = byte(*next >> (8 * (5 - k)))
				}
			}
			off += len(r.Raw)
		}
	}

	return data
}

// cleartextRecord builds one well-formed epoch-0 record: alerts of every level, application data,
// ACKs naming protected records, change_cipher_spec, heartbeat-like unknown types.
func cleartextRecord(r *rand.Rand, seq uint64) ([]byte, string) {
	var ctype byte
	var body []byte
	kind := ""
	switch r.IntN(7) {
	case 0:
		ctype, body, kind = CTAlert, []byte{2, []byte{10, 20, 40, 47, 50, 80, 90, 0}[r.IntN(8)]}, "fatal-alert"
	case 1:
		ctype, body, kind = CTAlert, []byte{1, 0}, "close-notify"
	case 2:
		ctype, body, kind = CTAlert, []byte{1, []byte{90, 100, 41}[r.IntN(3)]}, "warning-alert"
	case 3:
		ctype, body, kind = CTAppData, []byte("cleartext application data"), "application-data"
	case 4:
		for e := uint64(1); e <= 4; e++ {
			for q := uint64(0); q < 8; q++ {
				body = append(append(body, u64(e)...), u64(q)...)
			}
		}
		body = append([]byte{byte(len(body) >> 8), byte(len(body))}, body...)
		ctype, kind = CTACK, "ack"
	case 5:
		ctype, body, kind = CTChangeCipherSpec, []byte{1}, "change-cipher-spec"
	default:
		ctype, body, kind = byte([]int{24, 27, 19, 99}[r.IntN(4)]), []byte{1, 0, 0}, "unknown-type"
	}
	rec := []byte{ctype, 0xfe, 0xfd, 0, 0}
	rec = append(rec, u64(seq)[2:]...)
	rec = append(rec, byte(len(body)>>8), byte(len(body)))

	return append(rec, body...), "cleartext-" + kind
}
