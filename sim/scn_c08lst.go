package verifsim

import (
	"context"
	"fmt"
	"math/rand/v2"
	"net"
	"time"

	dtls "github.com/pion/dtls/v3"
	"github.com/pion/dtls/v3/internal/net/udp"
)

// C08, listener phase: a flood of handshake-looking datagrams from many spoofed source addresses
// fills a listener's accept backlog (128) while the application is slow to accept; genuine clients
// start their handshakes in the middle of it, so the first datagram of some of them is refused.
// The application then accepts (and soon drops) everything that is pending. Whatever the flood
// did, a genuine client that keeps retransmitting must be served once the backlog has drained:
// "the endpoint keeps serving valid traffic afterwards".
func c08ListenerRun(rc *RunCtx, p *C08Params) {
	s := rc.S
	rc.R.Class = fmt.Sprintf("listener/spoofed%d/accept-after%dms", p.N/50*50, p.SpanMs)
	rc.R.NonTriv = true
	rc.Note("proto", "dtls12")
	s.MaxSteps = 600_000
	n := NewSimNet(s, NetRules{})
	lAddr := Addr(2, 4444)
	lsock := n.NewConn("l", lAddr)
	udp.VerifSocket = func(string, string) net.PacketConn { return lsock }
	defer func() { udp.VerifSocket = nil }()
	cspec, sspec := pskPair(suitePSKGCM)
	env := &Env{}
	_, sopts, err := sspec.Options(true, env, "l")
	if err != nil {
		rc.Violate("harness", "%v", err)

		return
	}
	ln, err := dtls.ListenWithOptions("udp", lAddr, sopts...)
	if err != nil {
		rc.Violate("harness", "listen: %v", err)

		return
	}
	var accepted []*dtls.Conn
	served := map[string][][]byte{} // by remote address: payloads read on handshaken connections
	accepting := false
	s.After(time.Duration(p.SpanMs)*time.Millisecond, func() {
		accepting = true
		s.Go("acceptor", func() {
			for {
				c, aerr := ln.Accept()
				if aerr != nil {
					return
				}
				dc, ok := c.(*dtls.Conn)
				if !ok {
					return
				}
				accepted = append(accepted, dc)
				s.Go("srv-conn", func() {
					ctx, cancel := context.WithTimeout(context.Background(), s.Uniq(2*time.Second))
					herr := dc.HandshakeContext(ctx)
					cancel()
					if herr != nil {
						_ = dc.Close()

						return
					}
					who := dc.RemoteAddr().String()
					buf := make([]byte, 2048)
					for {
						k, rerr := dc.Read(buf)
						if rerr != nil {
							return
						}
						served[who] = append(served[who], append([]byte(nil), buf[:k]...))
					}
				})
			}
		})
	})
	// the flood: one handshake-looking datagram per spoofed address, within the first FloodMs
	floodMs := 1 + p.SpanMs/2
	for i := 0; i < p.N; i++ {
		i := i
		d := s.Ch.Draw("flood-at", func(r *rand.Rand) Dec { return Dec{A: r.Int64N(int64(floodMs)*int64(time.Millisecond) + 1)} })
		s.After(time.Duration(d.A)+time.Duration(i)*time.Microsecond+77*time.Nanosecond, func() {
			src := Addr(byte(100+i/250), 10000+i%250)
			body := []byte{HTClientHello, 0, 0, 3, 0, 0, 0, 0, 0, 0, 0, 3, 0xfe, 0xfd, byte(i)}
			rec := append([]byte{CTHandshake, 0xfe, 0xfd, 0, 0, 0, 0, 0, 0, 0, byte(i), 0, byte(len(body))}, body...)
			s.Fault("spoofed-hello-from-new-address")
			n.InjectNow(src, lAddr, rec)
		})
	}
	// genuine clients, started while the flood is on
	type cli struct {
		name  string
		addr  net.Addr
		conn  *dtls.Conn
		done  bool
		err   error
		start time.Duration
	}
	var clients []*cli
	for i := 0; i < max(1, p.Clients); i++ {
		name := fmt.Sprintf("c%d", i)
		addr := Addr(byte(20+i), 7000+i)
		sock := n.NewConn(name, addr)
		copts, _, oerr := cspec.Options(false, env, name)
		if oerr != nil {
			rc.Violate("harness", "%v", oerr)

			return
		}
		conn, cerr := dtls.ClientWithOptions(sock, lAddr, copts...)
		if cerr != nil {
			rc.Violate("harness", "%v", cerr)

			return
		}
		c := &cli{name: name, addr: addr, conn: conn}
		clients = append(clients, c)
		d := s.Ch.Draw("client-at", func(r *rand.Rand) Dec { return Dec{A: r.Int64N(int64(floodMs)*int64(time.Millisecond) + 1)} })
		s.After(time.Duration(d.A)+time.Duration(i)*time.Microsecond+13*time.Nanosecond, func() {
			c.start = s.Now()
			s.Go(name+"-handshake", func() {
				ctx, cancel := context.WithTimeout(context.Background(), s.Uniq(3*time.Minute))
				defer cancel()
				c.err = c.conn.HandshakeContext(ctx)
				c.done = true
			})
		})
	}
	defer func() {
		s.Policy.Active = false
		for _, c := range clients {
			c := c
			s.Go("close", func() { _ = c.conn.Close() })
		}
		// one goroutine for all of them: several hundred goroutines made runnable at one instant
		// overflow the runtime's local run queue, and the order in which the global queue is then
		// polled depends on a per-process scheduler tick - the one thing no seam here controls
		s.Go("close-accepted", func() {
			for _, a := range accepted {
				_ = a.Close()
			}
		})
		s.Go("close-listener", func() { _ = ln.Close() })
		s.Drain(func() bool { return s.OpsLive() == 0 }, 10*time.Second)
		n.CloseAll()
		s.Drain(func() bool { return s.OpsLive() == 0 }, 10*time.Second)
	}()
	allDone := func() bool {
		for _, c := range clients {
			if !c.done {
				return false
			}
		}

		return accepting
	}
	s.Run(allDone, 4*time.Minute)
	if len(s.Panics) > 0 || s.Overrun() {
		return
	}
	for _, c := range clients {
		if !c.done || c.err != nil {
			rc.Violate("listener-starved", "%d handshake-looking datagrams from as many spoofed addresses arrived within %d ms, the application began to accept after %d ms and dropped every connection that failed to handshake within 2 s; genuine client %s (started at t=%v, retransmitting for three minutes) was never served: done=%v err=%v; connections accepted in all: %d", p.N, floodMs, p.SpanMs, c.name, c.start, c.done, c.err, len(accepted))

			return
		}
	}
	// and data flows
	for _, c := range clients {
		c := c
		pl := Payload(c.name, 3, 0, 24)
		wdone := false
		s.Go(c.name+"-write", func() { _, _ = c.conn.Write(pl); wdone = true })
		got := func() bool {
			for _, g := range served[c.addr.String()] {
				if string(g) == string(pl) {
					return true
				}
			}

			return false
		}
		if !s.Run(func() bool { return wdone && got() }, 10*time.Second) && !got() {
			rc.Violate("listener-starved", "client %s completed its handshake after the flood but its payload never reached a connection accepted for %s", c.name, c.addr)

			return
		}
	}
	if p.N > 128 {
		s.Probe("accept-backlog-overflowed-by-spoofed-hellos")
	}
	s.Probe("served-after-hostile-input:listener")
}
