package verifsim

import (
	"context"
	"fmt"
	"math/rand/v2"
	"net"
	"time"

	dtls "github.com/pion/dtls/v3"
)

// C09: an (epoch, sequence number) pair is never emitted twice; per epoch the
// numbers strictly increase in emission order.

type C09Params struct {
	Cfg        string   `json:"cfg"`
	Rules      NetRules `json:"rules"`
	WritersC   int      `json:"writers_c"`
	WritersS   int      `json:"writers_s"`
	PerWriter  int      `json:"per_writer"`
	ParkPm     int      `json:"park_pm"`
	Size       int      `json:"size"`
	EarlyWrite bool     `json:"early_write"` // issue the writes before/during the handshake
	CloseRace  bool     `json:"close_race"`  // Close races the last writes
	Inject     int      `json:"inject"`      // number of garbage/alert-provoking datagrams injected
	// RebindAt: after that many client datagrams of the data phase the client's source address
	// changes (NAT rebinding); with connection IDs and return-routability checking negotiated the
	// server then sends path-validation records while its own writers are busy
	RebindAt []int `json:"rebind_at,omitempty"`
	// Updates: DTLS 1.3 only: that many UpdateKeys calls per side, issued from their own
	// goroutines while the writers run (KeyUpdate, its ACK and the epoch switch race the writes)
	Updates int `json:"updates,omitempty"`
	// Export (DTLS 1.2 only): "c" or "s": after the writers have finished that side's state is
	// serialised, its socket dies, and a connection resumed from the bytes writes on; with
	// EarlyState the application had already read ConnectionState() once before the writers ran
	Export     string `json:"export,omitempty"`
	EarlyState bool   `json:"early_state,omitempty"`
	// Exhaust ("c" or "s", scn_c09x.go): that side's record number jumps to 2^48-Left, then it
	// performs the operations XOps ('w' Write, 'u' UpdateKeys) and closes
	Exhaust string `json:"exhaust,omitempty"`
	Left    int    `json:"left,omitempty"`
	XOps    string `json:"xops,omitempty"`
	// MTU (both sides): handshake messages are fragmented, so that a lossy handshake has partially
	// acknowledged (DTLS 1.3) or partially received flights and fragment-wise retransmissions
	MTU int `json:"mtu,omitempty"`
}

func c09Counts(tier string) (int, int) {
	if tier == "thorough" {
		return 0, 100000000
	}

	return 0, 10000000
}

func c09Gen(r *rand.Rand, tier string, idx int) any {
	cfgs := DataCfgs()
	p := &C09Params{Cfg: cfgs[r.IntN(len(cfgs))].Name}
	p.WritersC, p.WritersS = 1+r.IntN(4), r.IntN(4)
	p.PerWriter = 1 + r.IntN(5)
	p.ParkPm = []int{0, 100, 300, 500, 800}[r.IntN(5)]
	p.Size = []int{1, 16, 100, 1200, 3000}[r.IntN(5)]
	p.EarlyWrite = r.IntN(3) == 0
	p.CloseRace = r.IntN(3) == 0
	p.Inject = []int{0, 0, 1, 3}[r.IntN(4)]
	if c, _ := dataCfgByName(p.Cfg); c.C.CIDLen > 0 && c.S.CIDLen > 0 && r.IntN(2) == 0 {
		for k, at := 0, 0; k < 1+r.IntN(3); k++ {
			at += 1 + r.IntN(6)
			p.RebindAt = append(p.RebindAt, at)
		}
		p.WritersS = 1 + r.IntN(3)
		p.PerWriter = 4 + r.IntN(5)
		p.EarlyWrite = false
	}
	if c, _ := dataCfgByName(p.Cfg); c.C.MaxVer == 13 && r.IntN(2) == 0 {
		p.Updates = 1 + r.IntN(3)
		p.EarlyWrite = false
	}
	if c, _ := dataCfgByName(p.Cfg); c.C.MaxVer == 12 && len(p.RebindAt) == 0 && r.IntN(4) == 0 {
		p.Export, p.EarlyState, p.CloseRace = []string{"c", "s"}[r.IntN(2)], r.IntN(2) == 0, false
	}
	if r.IntN(7) == 0 {
		p.Exhaust, p.Left = []string{"c", "s"}[r.IntN(2)], r.IntN(4)
		for k := 2 + r.IntN(5); k > 0; k-- {
			p.XOps += string("wwu"[r.IntN(3)])
		}
	}
	if r.IntN(3) != 0 {
		p.Rules = NetRules{DropPm: 50 + r.IntN(250), DupPm: r.IntN(100), HoldPm: r.IntN(100), FaultsUntilIdx: 3 + r.IntN(12),
			HoldMaxNs: int64(time.Millisecond) * int64(10+r.IntN(2500))}
		if p.Exhaust == "" && p.Export == "" && r.IntN(3) == 0 {
			p.MTU = []int{200, 300, 400, 600}[r.IntN(4)]
			p.Rules.FaultsUntilIdx = 5 + r.IntN(40)
			if p.Size > p.MTU/2 {
				p.Size = 16
			}
		}
	}

	return p
}

// NonceMonitor checks (epoch, seq) uniqueness and monotonicity over an endpoint's emissions.
type NonceMonitor struct {
	seen    map[[2]uint64]int // (epoch, seq) -> emission idx
	highest map[uint16]int64
	Records int
	Epochs  map[uint16]bool
	// Dec13, if set, decodes unified-header records (sender's write secrets)
	Dec13     *Decoder13
	Decoded13 int
	Undecoded int
}

func NewNonceMonitor() *NonceMonitor {
	return &NonceMonitor{seen: map[[2]uint64]int{}, highest: map[uint16]int64{}, Epochs: map[uint16]bool{}}
}

// Feed parses one emitted datagram (legacy record layouts only; unified-header
// records are skipped here because their sequence number is encrypted).
func (m *NonceMonitor) Feed(em Emission, cidLen int) error {
	recs, err := ParseDatagram(em.Data, cidLen)
	if err != nil {
		return fmt.Errorf("emission %s#%d does not parse as DTLS records: %v", em.Ep, em.Idx, err)
	}
	for _, r := range recs {
		if r.Unified {
			if m.Dec13 == nil {
				continue
			}
			e, _, _, sq, oerr := m.Dec13.Open(r)
			if oerr != nil {
				m.Undecoded++ // e.g. a handshake-epoch record whose secret is no longer retained

				continue
			}
			r.Epoch, r.Seq = e, sq
			m.Decoded13++
		}
		m.Records++
		m.Epochs[r.Epoch] = true
		key := [2]uint64{uint64(r.Epoch), r.Seq}
		if prev, ok := m.seen[key]; ok {
			return fmt.Errorf("%s emitted (epoch %d, seq %d) twice: in datagram #%d and again in #%d (type %d)", em.Ep, r.Epoch, r.Seq, prev, em.Idx, r.Type)
		}
		m.seen[key] = em.Idx
		if h, ok := m.highest[r.Epoch]; ok && int64(r.Seq) <= h {
			return fmt.Errorf("%s emitted epoch %d seq %d after seq %d (datagram #%d): not increasing in emission order", em.Ep, r.Epoch, r.Seq, h, em.Idx)
		}
		m.highest[r.Epoch] = int64(r.Seq)
	}

	return nil
}

func c09Run(rc *RunCtx, params any) {
	p := params.(*C09Params)
	s := rc.S
	cfg, ok := dataCfgByName(p.Cfg)
	if !ok {
		rc.Violate("harness", "unknown cfg %q", p.Cfg)

		return
	}
	rc.R.Class = cfg.Name
	rc.Note("proto", protoTag(cfg.C, cfg.S))
	if p.Exhaust != "" {
		c09Exhaust(rc, p, cfg)

		return
	}
	n := NewSimNet(s, p.Rules)
	if p.MTU > 0 {
		cfg.C.MTU, cfg.S.MTU = p.MTU, p.MTU
		rc.R.Class += "/mtu"
	}
	pair, err := NewPair(s, n, cfg.C, cfg.S, nil)
	if err != nil {
		rc.Violate("harness", "config: %v", err)

		return
	}
	s.Policy = SchedPolicy{ParkPermille: p.ParkPm, Active: true}
	writesLive := 0
	startWriters := func() {
		for _, side := range []struct {
			ep string
			n  int
		}{{"c", p.WritersC}, {"s", p.WritersS}} {
			for w := 0; w < side.n; w++ {
				ep, w := side.ep, w
				writesLive++
				conn := pair.ConnOf(ep)
				s.Go(fmt.Sprintf("%s-writer%d", ep, w), func() {
					defer func() { writesLive-- }()
					for k := 0; k < p.PerWriter; k++ {
						if _, err := conn.Write(Payload(ep, w, k, p.Size)); err != nil {
							s.Record("write-err", ep, err.Error(), nil)

							return
						}
						if len(p.RebindAt) > 0 {
							// spread the writes over the round trips in which the path is validated
							s.Sleep(time.Duration(1+(k*5+w*3)%4) * time.Millisecond)
						}
					}
				})
			}
		}
	}
	startUpdaters := func() {
		for _, ep := range []string{"c", "s"} {
			ep := ep
			conn := pair.ConnOf(ep)
			writesLive++
			s.Go(ep+"-updater", func() {
				defer func() { writesLive-- }()
				for k := 0; k < p.Updates; k++ {
					ctx, cancel := context.WithTimeout(context.Background(), s.Uniq(20*time.Second))
					err := conn.UpdateKeys(ctx, dtls.KeyUpdateOptions{RequestPeerUpdate: k%2 == 1})
					cancel()
					if err != nil {
						s.Record("update-err", ep, err.Error(), nil)

						return
					}
					s.Probe("key-update-racing-writers")
				}
			})
		}
	}
	if p.EarlyWrite {
		// never at the same virtual instant as the server's handshake start (timer ties)
		off := s.Ch.Draw("start", func(r *rand.Rand) Dec { return Dec{C: 1 + r.Int64N(999_983)} })
		s.After(time.Duration(off.C), startWriters)
	}
	pair.StartHandshakes(0)
	established := s.Run(pair.BothDone, 10*time.Minute) && pair.BothOK()
	if established && len(p.RebindAt) > 0 {
		alts := []net.Addr{Addr(11, 6001), Addr(12, 6002)}
		for _, a := range alts {
			n.Alias(a, pair.CSock)
		}
		base := 0
		for _, em := range n.Emits {
			if em.Ep == "c" {
				base++
			}
		}
		n.ReAddr = func(em *Emission) net.Addr {
			if em.Ep != "c" {
				return nil
			}
			moved := 0
			for _, at := range p.RebindAt {
				if em.Idx-base >= at {
					moved++
				}
			}
			if moved == 0 {
				return nil
			}
			s.Probe("datagram-from-rebound-address")

			return alts[(moved-1)%2]
		}
	}
	if established {
		pair.StartReader("c")
		if len(p.RebindAt) > 0 {
			// an echo service: the datagram that reveals the new address is answered by the
			// application at the very instant the read loop starts validating the path
			conn := pair.ConnOf("s")
			s.Go("s-echo", func() {
				buf := make([]byte, 16384)
				for {
					k, err := conn.Read(buf)
					if err != nil {
						return
					}
					if _, err = conn.Write(buf[:k]); err != nil {
						return
					}
				}
			})
		} else {
			pair.StartReader("s")
		}
		if !p.EarlyWrite {
			startWriters()
		}
		if p.Updates > 0 {
			startUpdaters()
		}
		for i := 0; i < p.Inject; i++ {
			// a datagram that cannot be authenticated / parsed; may provoke alerts
			junk := []byte{23, 0xfe, 0xfd, 0, 1, 0, 0, 0, 0, 0, byte(200 + i), 0, 4, 1, 2, 3, 4}
			n.Inject(time.Duration(i+1)*time.Millisecond, pair.CAddr, pair.SAddr, junk)
			n.Inject(time.Duration(i+1)*time.Millisecond, pair.SAddr, pair.CAddr, []byte{21, 0xfe, 0xfd, 0, 0, 0, 0, 0, 0, 0, byte(i), 0, 2, 1, 0})
		}
		if p.Export != "" && p.EarlyState {
			if st0, ok0 := pair.ConnOf(p.Export).ConnectionState(); ok0 {
				_, _ = st0.ExportKeyingMaterial("EXTRACTOR-verif", nil, 16)
			}
		}
		if p.CloseRace {
			s.Run(func() bool { return writesLive <= 1 }, time.Minute)
		} else {
			s.Run(func() bool { return writesLive == 0 }, time.Minute)
			s.Run(func() bool { return false }, 3*time.Second)
		}
	}
	var resumed *dtls.Conn
	if established && p.Export != "" && cfg.C.MaxVer == 12 {
		resumed = c09ExportImport(rc, p, pair, n)
	}
	// DTLS 1.3: record numbers are encrypted on the wire; decode them with the sender's own secrets
	var dec13 map[string]*Decoder13
	if cfg.C.MaxVer == 13 && established {
		cst, _ := pair.Client.ConnectionState()
		cw, _ := dtls.VerifTrafficSecrets(pair.Client)
		sw, _ := dtls.VerifTrafficSecrets(pair.Server)
		dec13 = map[string]*Decoder13{"c": NewDecoder13(uint16(cst.CipherSuiteID), cw), "s": NewDecoder13(uint16(cst.CipherSuiteID), sw)}
	}
	if resumed != nil {
		s.Go("resumed-close", func() { _ = resumed.Close() })
	}
	pair.Teardown()
	// oracle over everything each endpoint handed to its socket
	cm, sm := NewNonceMonitor(), NewNonceMonitor()
	cm.Dec13, sm.Dec13 = dec13["c"], dec13["s"]
	for _, em := range n.Emits {
		var err error
		if em.Ep == "c2" || em.Ep == "s2" { // the connection resumed from the exported state continues the same sender
			em.Ep = em.Ep[:1]
			em.Idx += 1 << 20
		}
		if em.Ep == "c" {
			err = cm.Feed(em, len(cfg.S.CIDOf()))
		} else {
			err = sm.Feed(em, len(cfg.C.CIDOf()))
		}
		if err != nil {
			sig := "nonce-reuse"
			if len(cfg.C.CIDOf())+len(cfg.S.CIDOf()) > 0 {
				sig += ":cid"
			}
			rc.Violate(sig, "%v", err)

			break
		}
	}
	if cm.Decoded13+sm.Decoded13 > 0 {
		s.Probe("dtls13-record-numbers-decoded")
	}
	if cm.Undecoded+sm.Undecoded > 0 {
		s.Probe("dtls13-records-without-retained-secret")
	}
	if len(cm.Epochs) > 1 || len(sm.Epochs) > 1 {
		s.Probe("records-in-epoch>=1-checked")
	}
	if !established {
		rc.Note("not-established", fmt.Sprintf("c=%v s=%v", pair.CHs.Err, pair.SHs.Err))
	}
	rc.R.NonTriv = s.Parks > 0 || len(s.Faults) > 0 || p.WritersC+p.WritersS > 1
}

// c09ExportImport serialises one side's state, kills its socket, resumes a connection from the
// bytes on a new socket bound to the same address and lets it write on from two goroutines.
func c09ExportImport(rc *RunCtx, p *C09Params, pair *Pair, n *SimNet) *dtls.Conn {
	s := rc.S
	s.Run(func() bool { return false }, 200*time.Millisecond)
	st, ok := pair.ConnOf(p.Export).ConnectionState()
	if !ok {
		return nil
	}
	raw, err := st.MarshalBinary()
	if err != nil {
		rc.Note("export-failed", err.Error())

		return nil
	}
	var st2 dtls.State
	if err = st2.UnmarshalBinary(raw); err != nil {
		rc.Note("import-failed", err.Error())

		return nil
	}
	self, peerAddr, sock := pair.CAddr, pair.SAddr, pair.CSock
	if p.Export == "s" {
		self, peerAddr, sock = pair.SAddr, pair.CAddr, pair.SSock
	}
	sock.Sever()
	name := p.Export + "2"
	resumed, rerr := dtls.ResumeWithOptions(&st2, n.Rebind(name, self), peerAddr, pair.Env.Shared[p.Export]...)
	if rerr != nil {
		rc.Note("resume-failed", rerr.Error())

		return nil
	}
	live := 2
	for w := 0; w < 2; w++ {
		w := w
		s.Go(fmt.Sprintf("%s-writer%d", name, w), func() {
			defer func() { live-- }()
			for k := 0; k < 3; k++ {
				if _, werr := resumed.Write(Payload(name, w, k, p.Size)); werr != nil {
					return
				}
			}
		})
	}
	s.Run(func() bool { return live == 0 }, 30*time.Second)
	s.Run(func() bool { return false }, time.Second)
	s.Probe("writes-after-export-import")

	return resumed
}

func init() {
	Register(&Scenario{
		ID:        "C09",
		Counts:    c09Counts,
		Gen:       c09Gen,
		NewParams: func() any { return &C09Params{} },
		Run:       c09Run,
	})
}
