package verifsim

import (
	"context"
	"fmt"
	"time"

	dtls "github.com/pion/dtls/v3"
)

// C09, mode "exhaust": "a write fails rather than wrap at 2^48", for every kind of record an
// endpoint can be asked to emit. After a clean handshake and a first exchange one side's record
// number of its current sending epoch jumps to 2^48-Left (for the peer: a long run of lost
// records); it then performs a drawn sequence of operations - application writes, DTLS 1.3 key
// updates (the legitimate way out: a new epoch starts at 0), finally Close - and everything it
// handed to its socket is decoded:
//   - no record carries a number >= 2^48, none is emitted twice or out of order (a wrapped number is
//     a repeated one; under DTLS 1.3 it shows as a record the sender's own secrets cannot open);
//   - a Write that returned nil has a record that can have carried it.
func c09Exhaust(rc *RunCtx, p *C09Params, cfg DataCfg) {
	s := rc.S
	rc.R.Class = cfg.Name + "/exhaust"
	n := NewSimNet(s, NetRules{BaseLatencyNs: int64(2 * time.Millisecond)})
	pair, err := NewPair(s, n, cfg.C, cfg.S, nil)
	if err != nil {
		rc.Violate("harness", "config: %v", err)

		return
	}
	defer pair.Teardown()
	if !pair.Establish(time.Minute) {
		rc.Note("not-established", "")

		return
	}
	s.Run(func() bool { return false }, 3*time.Second)
	rc.R.NonTriv = true
	is13 := cfg.C.MaxVer == 13
	side, peer := "c", "s"
	if p.Exhaust == "s" {
		side, peer = "s", "c"
	}
	pair.StartReader("c")
	pair.StartReader("s")
	for k := 0; k < 2; k++ {
		for _, ep := range []string{side, peer} {
			if err := pair.WriteSync(ep, Payload(ep, 5, k, 32), 10*time.Second); err != nil {
				rc.Violate("harness-write", "first exchange: %v", err)

				return
			}
		}
	}
	s.Run(func() bool { return false }, time.Second)
	conn := pair.ConnOf(side)
	e := 1
	if is13 {
		e = 3
	}
	cur := dtls.VerifLocalSeq(conn)
	if len(cur) <= e {
		rc.Violate("harness", "no counter for epoch %d", e)

		return
	}
	const limit = uint64(1) << 48
	target := limit - uint64(p.Left)
	jumpAt := len(n.Emits)
	dtls.VerifSkipLocalSeq(conn, target-cur[e])
	if is13 {
		// DTLS 1.3 records carry the low 16 bits of their number: the receiver is moved along
		dtls.VerifSkipRemoteSeq(pair.ConnOf(peer), uint16(e), target-cur[e])
	}
	s.Fault("record-number-jump-to-limit")
	okWrites, okUpdates, triedUpdates := 0, 0, 0
	for i, op := range p.XOps {
		switch op {
		case 'w':
			if werr := pair.WriteSync(side, Payload(side, 6, i, 40), 10*time.Second); werr == nil {
				okWrites++
			} else {
				s.Probe("write-refused-at-limit")
			}
		case 'u':
			if !is13 {
				continue
			}
			triedUpdates++
			done := false
			var uerr error
			s.Go(side+"-update", func() {
				ctx, cancel := context.WithTimeout(context.Background(), s.Uniq(5*time.Second))
				defer cancel()
				uerr = conn.UpdateKeys(ctx, dtls.KeyUpdateOptions{RequestPeerUpdate: i%2 == 1})
				done = true
			})
			s.Run(func() bool { return done }, 20*time.Second)
			if done && uerr == nil {
				okUpdates++
			} else if done {
				s.Probe("update-refused-at-limit")
			}
		}
		s.Run(func() bool { return false }, 50*time.Millisecond)
	}
	closed := false
	s.Go(side+"-close", func() { _ = conn.Close(); closed = true })
	s.Run(func() bool { return closed }, 30*time.Second)
	s.Run(func() bool { return false }, time.Second)
	// ---- what did the side hand to its socket? ----
	mon := NewNonceMonitor()
	if is13 {
		cst, _ := pair.Client.ConnectionState()
		w, _ := dtls.VerifTrafficSecrets(conn)
		mon.Dec13 = NewDecoder13(uint16(cst.CipherSuiteID), w)
	}
	cidLen := len(cfg.S.CIDOf())
	if side == "s" {
		cidLen = len(cfg.C.CIDOf())
	}
	carriers := 0
	for i, em := range n.Emits {
		if em.Ep != side {
			continue
		}
		if i >= jumpAt && mon.Dec13 != nil && mon.Dec13.next[uint16(e)] < target {
			mon.Dec13.next[uint16(e)] = target
		}
		und := mon.Undecoded
		if ferr := mon.Feed(em, cidLen); ferr != nil {
			rc.Violate("nonce-reuse:at-limit", "%v (record number set to 2^48-%d, operations %q)", ferr, p.Left, p.XOps)

			return
		}
		if i >= jumpAt && mon.Undecoded > und {
			rc.Violate("seq-wrap", "%s emitted a record after its record number reached 2^48-%d that none of its own write secrets opens at any number near the limit (operations %q)", side, p.Left, p.XOps)

			return
		}
		if i >= jumpAt {
			recs, _ := ParseDatagram(em.Data, cidLen)
			for _, r := range recs {
				if r.Unified || r.Type == CTAppData || r.Type == 25 {
					carriers++
				}
			}
		}
	}
	for ep, h := range mon.highest {
		if uint64(h) >= limit {
			rc.Violate("seq-wrap", "%s emitted a record with number %d = 2^48+%d in epoch %d (record number set to 2^48-%d, operations %q): the counter must stop at 2^48-1", side, h, uint64(h)-limit, ep, p.Left, p.XOps)

			return
		}
	}
	if okWrites > carriers {
		rc.Violate("seq-wrap", "%s: %d Writes returned nil after the record number reached 2^48-%d, but only %d records that can carry application data left the endpoint (operations %q)", side, okWrites, p.Left, carriers, p.XOps)

		return
	}
	if triedUpdates == 0 && okWrites > p.Left {
		rc.Violate("seq-wrap", "%s: %d Writes returned nil with %d record numbers left in the epoch and no key update (operations %q)", side, okWrites, p.Left, p.XOps)

		return
	}
	s.Probe("record-number-limit-checked")
	if okUpdates > 0 {
		s.Probe("key-update-at-record-number-limit")
	}
	_ = fmt.Sprint
}
