package verifsim

import (
	"bytes"
	"fmt"
	"math/rand/v2"
	"sort"
	"time"

	dtls "github.com/pion/dtls/v3"
)

// C10: every derived secret and protected record equals what the RFCs prescribe,
// as computed by the independent refdtls model from the same inputs — decided
// here through interoperability: the passive reference decoder must open every
// record of every simulated session and recompute its secrets, and the library
// must accept records the reference model seals.

type C10Params struct {
	Cfg    string   `json:"cfg"`
	EMS    [2]int   `json:"ems"`
	Resume bool     `json:"resume"`
	Sizes  []int    `json:"sizes"`
	Rules  NetRules `json:"rules"`
	Forge  int      `json:"forge"` // number of reference-sealed records injected per direction
	HelloV bool     `json:"hv"`
	// RefServer (DTLS 1.3 without connection IDs): the real client talks to a complete server built on refdtls
	RefServer bool `json:"ref_server,omitempty"`
	// SeqJump (DTLS 1.2): after the first payload each side's record number is advanced by this
	// much - for the peer indistinguishable from that many lost records - so that the nonce and
	// additional-data layouts are exercised with sequence numbers beyond 2^16, 2^32 and 2^40
	SeqJump uint64 `json:"seq_jump,omitempty"`
}

func c10Counts(tier string) (int, int) {
	if tier == "thorough" {
		return 0, 100000000
	}

	return 0, 10000000
}

func c10Gen(r *rand.Rand, tier string, idx int) any {
	ds := DataCfgs()
	p := &C10Params{Cfg: ds[r.IntN(len(ds))].Name, Forge: 1 + r.IntN(3), HelloV: r.IntN(2) == 0}
	ems := [][2]int{{0, 0}, {0, 0}, {1, 1}, {2, 2}, {0, 2}, {2, 0}}[r.IntN(6)]
	p.EMS = ems
	p.Resume = r.IntN(4) == 0
	n := 1 + r.IntN(5)
	for i := 0; i < n; i++ {
		p.Sizes = append(p.Sizes, []int{1, 2, 15, 16, 17, 31, 32, 33, 100, 255, 256, 1000, 1187, 4000, 8000}[r.IntN(15)])
	}
	p.RefServer = r.IntN(3) == 0
	if r.IntN(3) == 0 {
		p.SeqJump = []uint64{1<<16 + 3, 1<<24 + 1, 1<<32 + 7, 1<<40 + 11, 1<<47 + 5}[r.IntN(5)]
	}
	if r.IntN(3) == 0 {
		p.Rules = NetRules{DropPm: 50 + r.IntN(200), DupPm: r.IntN(100), FaultsUntilIdx: 3 + r.IntN(8)}
	}

	return p
}

type recordView struct {
	em   Emission
	rec  Rec
	from string
}

func c10Run(rc *RunCtx, params any) {
	p := params.(*C10Params)
	s := rc.S
	cfg, ok := dataCfgByName(p.Cfg)
	if !ok {
		rc.Violate("harness", "unknown cfg")

		return
	}
	rc.R.Class = cfg.Name
	rc.R.NonTriv = true
	is13 := cfg.C.MaxVer == 13
	if is13 {
		c10Run13(rc, p, cfg)

		return
	}
	cfg.C.EMS, cfg.S.EMS = p.EMS[0], p.EMS[1]
	cfg.S.SkipHelloVerify = !p.HelloV
	env := &Env{Stores: map[string]dtls.SessionStore{"cstore": NewSimStore(s, "cstore", 0), "sstore": NewSimStore(s, "sstore", 0)}, KeyLogs: map[string]*KeyLog{}}
	if p.Resume {
		cfg.C.Store, cfg.S.Store = "cstore", "sstore"
		n0 := NewSimNet(s, NetRules{})
		p0, err := NewPairNamed(s, n0, cfg.C, cfg.S, env, "c0", "s0")
		if err != nil {
			rc.Violate("harness", "config: %v", err)

			return
		}
		okp := p0.Establish(time.Minute)
		p0.Teardown()
		if !okp {
			rc.Note("prelude-failed", "")

			return
		}
	}
	n := NewSimNet(s, p.Rules)
	pair, err := NewPair(s, n, cfg.C, cfg.S, env)
	if err != nil {
		rc.Violate("harness", "config: %v", err)

		return
	}
	defer pair.Teardown()
	pair.StartHandshakes(0)
	if !s.Run(pair.BothDone, 10*time.Minute) || !pair.BothOK() {
		rc.Note("not-established", "")

		return
	}
	n.MakeReliable()
	rdC, rdS := pair.StartReader("c"), pair.StartReader("s")
	wrote := map[string][][]byte{}
	for i, sz := range p.Sizes {
		for _, ep := range []string{"c", "s"} {
			pl := Payload(ep, 1, i, sz)
			if err := pair.WriteSync(ep, pl, 10*time.Second); err != nil {
				rc.Violate("write-failed", "%s write of %d bytes: %v", ep, sz, err)

				return
			}
			wrote[ep] = append(wrote[ep], pl)
			if i == 0 && p.SeqJump > 0 {
				dtls.VerifSkipLocalSeq(pair.ConnOf(ep), p.SeqJump)
				s.Probe("record-numbers-advanced")
			}
		}
	}
	s.Run(func() bool { return len(rdS.Got) >= len(p.Sizes) && len(rdC.Got) >= len(p.Sizes) }, 5*time.Second)
	if p.SeqJump > 0 && (len(rdS.Got) < len(p.Sizes) || len(rdC.Got) < len(p.Sizes)) {
		rc.Violate("lost-after-gap", "after a gap of %d record numbers (indistinguishable from that many lost records) the server read %d and the client %d of %d payloads on a loss-free link", p.SeqJump, len(rdS.Got), len(rdC.Got), len(p.Sizes))

		return
	}
	// ---- build the reference session from the wire and the key log ----
	cidToS, cidToC := len(cfg.S.CIDOf()), len(cfg.C.CIDOf())
	col := NewHsCollector()
	for _, em := range n.Emits {
		if em.Ep == "c" {
			col.Feed(em, cidToS)
		} else {
			col.Feed(em, cidToC)
		}
	}
	chs, shs := col.Of("c", HTClientHello), col.Of("s", HTServerHello)
	if len(chs) == 0 || len(shs) == 0 {
		rc.Violate("wire-missing-hello", "hellos not found on the wire")

		return
	}
	chMsg, shMsg := chs[len(chs)-1], shs[len(shs)-1]
	ch, e1 := ParseClientHello(chMsg.Body)
	sh, e2 := ParseServerHello(shMsg.Body)
	if e1 != nil || e2 != nil {
		rc.Violate("wire-hello-parse", "%v %v", e1, e2)

		return
	}
	var master []byte
	for _, who := range []string{"c", "s"} {
		ms := env.KeyLogs[who].Master(ch.Random)
		if len(ms) == 0 {
			rc.Violate("keylog-missing:"+who, "%s's key log has no CLIENT_RANDOM line for this connection's client random (resume=%v)", who, p.Resume)

			return
		}
		if master != nil && !bytes.Equal(master, ms[len(ms)-1]) {
			rc.Violate("keylog-disagree", "client and server key logs give different master secrets")

			return
		}
		master = ms[len(ms)-1]
	}
	ref, err := NewRef12(sh.Suites[0], master, ch.Random, sh.Random)
	if err != nil {
		rc.Violate("harness", "%v", err)

		return
	}
	// ---- (i) the passive decoder opens every protected record ----
	type opened struct {
		from  string
		ctype byte
		plain []byte
		epoch uint16
		seq   uint64
	}
	var recs []opened
	for _, em := range n.Emits {
		cid := cidToS
		if em.Ep == "s" {
			cid = cidToC
		}
		rs, perr := ParseDatagram(em.Data, cid)
		if perr != nil {
			rc.Violate("wire-parse", "datagram %s#%d: %v", em.Ep, em.Idx, perr)

			return
		}
		for _, r := range rs {
			if r.Epoch == 0 {
				continue
			}
			ct, plain, oerr := ref.Open(em.Ep == "c", r)
			if oerr != nil {
				rc.Violate(fmt.Sprintf("ref-cannot-open:%s:type%d", cfg.Name, r.Type), "the reference decoder (suite %#04x, keys from the key log) cannot open record epoch %d seq %d (outer type %d, %d body bytes, CID %x) emitted by %s: %v", sh.Suites[0], r.Epoch, r.Seq, r.Type, len(r.Body), r.CID, em.Ep, oerr)

				return
			}
			if r.Type == CTCID {
				s.Probe("cid-record-opened")
			}
			recs = append(recs, opened{em.Ep, ct, plain, r.Epoch, r.Seq})
		}
	}
	s.Probe("records-opened-by-reference")
	// application payloads, in emission order, equal what was written
	idx := map[string]int{}
	for _, o := range recs {
		if o.ctype != CTAppData {
			continue
		}
		k := idx[o.from]
		if k >= len(wrote[o.from]) || !bytes.Equal(o.plain, wrote[o.from][k]) {
			rc.Violate("ref-plaintext-differs", "record %d of %s decodes to %s, the application wrote %d payloads", k, o.from, preview(o.plain), len(wrote[o.from]))

			return
		}
		idx[o.from] = k + 1
	}
	// Finished verify_data over the reference transcript
	var trMsgs []*HsMsg
	for _, m := range col.Msgs {
		if m.Type == HTHelloVerifyRequest {
			continue
		}
		if m.Type == HTClientHello && m != chMsg {
			continue
		}
		trMsgs = append(trMsgs, m)
	}
	sort.SliceStable(trMsgs, func(i, j int) bool {
		// protocol order: by message sequence within the logical flights; use first-completion order on the wire
		return trMsgs[i].Seq < trMsgs[j].Seq
	})
	var transcript []byte
	var upToCKE []byte
	for _, m := range trMsgs {
		transcript = append(transcript, m.TranscriptForm()...)
		if m.Type == HTClientKeyExchange {
			upToCKE = append([]byte(nil), transcript...)
		}
	}
	resumed := len(col.Of("c", HTClientKeyExchange)) == 0
	var fin []opened
	for _, o := range recs {
		if o.ctype == CTHandshake && len(o.plain) >= 12 && o.plain[0] == HTFinished {
			dup := false
			for _, f := range fin {
				if f.from == o.from {
					dup = true // retransmission
				}
			}
			if !dup {
				fin = append(fin, o)
			}
		}
	}
	if len(fin) == 2 {
		first, second := fin[0], fin[1]
		want1 := ref.VerifyData12(first.from == "c", transcript)
		if !bytes.Equal(first.plain[12:], want1) {
			rc.Violate("finished-differs", "%s's Finished verify_data %x, reference over the wire transcript %x (resumed=%v)", first.from, first.plain[12:], want1, resumed)

			return
		}
		t2 := append(append([]byte(nil), transcript...), first.plain...)
		want2 := ref.VerifyData12(second.from == "c", t2)
		if !bytes.Equal(second.plain[12:], want2) {
			rc.Violate("finished-differs", "%s's Finished verify_data %x, reference %x", second.from, second.plain[12:], want2)

			return
		}
		s.Probe("finished-verified-by-reference")
		if resumed {
			s.Probe("resumed-session-decoded")
		}
	}
	// ---- (ii) exporter ----
	for _, conn := range []*dtls.Conn{pair.Client, pair.Server} {
		st, okst := conn.ConnectionState()
		if !okst {
			rc.Violate("no-state", "ConnectionState unavailable")

			return
		}
		for li, label := range []string{"EXTRACTOR-dtls_srtp", "EXPERIMENTAL-verif", "EXPORTER_verif_label_of_some_length"} {
			// lengths around the block sizes of P_SHA256 / P_SHA384
			ln := []int{47, 1, 31, 32, 33, 48, 49, 64, 65, 96, 97, 255}[(len(p.Sizes)+li*5+p.Forge)%12]
			got, eerr := st.ExportKeyingMaterial(label, nil, ln)
			if eerr != nil || !bytes.Equal(got, ref.Exporter12(label, ln)) {
				rc.Violate("exporter-differs", "ExportKeyingMaterial(%q, %d bytes) = %x (err %v), RFC 5705 reference %x", label, ln, got, eerr, ref.Exporter12(label, ln))

				return
			}
		}
	}
	// ---- (iii) master secret from the PSK (plain PSK suites: the premaster is public knowledge here) ----
	if cfg.C.PSK != "" && suiteKind(sh.Suites[0]) == "psk" && !resumed && upToCKE != nil {
		psk := []byte(cfg.C.PSK)
		pre := []byte{byte(len(psk) >> 8), byte(len(psk))}
		pre = append(pre, make([]byte, len(psk))...)
		pre = append(pre, byte(len(psk)>>8), byte(len(psk)))
		pre = append(pre, psk...)
		_, cEMS := ch.Ext(ExtEMS)
		_, sEMS := sh.Ext(ExtEMS)
		var want []byte
		if cEMS && sEMS {
			h := ref.Suite.prf()
			h.Write(upToCKE)
			want = MasterSecret12(ref.Suite.prf, pre, nil, nil, h.Sum(nil))
			s.Probe("extended-master-secret-recomputed")
		} else {
			want = MasterSecret12(ref.Suite.prf, pre, ch.Random, sh.Random, nil)
			s.Probe("master-secret-recomputed")
		}
		if !bytes.Equal(want, master) {
			rc.Violate("master-secret-differs", "master secret in the key log differs from the RFC derivation from the PSK (EMS negotiated: %v)", cEMS && sEMS)

			return
		}
	}
	// ---- (iv) the library accepts what the reference model seals ----
	nextSeq := map[string]uint64{}
	for _, o := range recs {
		if o.epoch == 1 && o.seq >= nextSeq[o.from] {
			nextSeq[o.from] = o.seq + 1
		}
	}
	for k := 0; k < p.Forge; k++ {
		for _, from := range []string{"c", "s"} {
			to, rd, cid := "s", rdS, cfg.S.CIDOf()
			fromAddr, toAddr := pair.CAddr, pair.SAddr
			if from == "s" {
				to, rd, cid = "c", rdC, cfg.C.CIDOf()
				fromAddr, toAddr = pair.SAddr, pair.CAddr
			}
			pl := Payload("ref-"+from, 7, k, p.Sizes[k%len(p.Sizes)])
			ref.Explicit = nil
			if k%2 == 1 {
				// a sender that numbers its explicit nonces with its own counter
				ref.Explicit = func(_ uint16, seq uint64) []byte { return u64(0xc0ffee0000000000 | (seq*2654435761)&0xffffffffff) }
				s.Probe("reference-record-with-own-explicit-nonce")
			}
			raw := ref.Seal(from == "c", CTAppData, 1, nextSeq[from]+uint64(10+k), cid, len(cid) > 0, pl, k*3)
			before := len(rd.Got)
			n.InjectNow(fromAddr, toAddr, raw)
			s.Settle()
			if len(rd.Got) != before+1 || !bytes.Equal(rd.Got[before], pl) {
				rc.Violate(fmt.Sprintf("lib-rejects-reference-record:%s", cfg.Name), "a record sealed by the reference model (suite %#04x, %d payload bytes, CID %x, %d padding zeros) under the session keys was not delivered by %s's Read", sh.Suites[0], len(pl), cid, k*3, to)

				return
			}
			s.Probe("reference-sealed-record-accepted")
		}
	}
}

func init() {
	Register(&Scenario{
		ID:        "C10",
		Counts:    c10Counts,
		Gen:       c10Gen,
		NewParams: func() any { return &C10Params{} },
		Run:       c10Run,
	})
}
