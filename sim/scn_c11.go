package verifsim

import (
	"fmt"
	"math/rand/v2"
	"time"

	dtls "github.com/pion/dtls/v3"
)

// C11: every negotiated parameter lies within both endpoints' configured policy;
// with no common value both sides fail, with an alert.

type C11Params struct {
	C     EpSpec   `json:"c"`
	Srv   EpSpec   `json:"s"`
	C2    *EpSpec  `json:"c2,omitempty"` // second connection over the same stores (policy changed)
	Srv2  *EpSpec  `json:"s2,omitempty"`
	Rules NetRules `json:"rules"`
	Twist string   `json:"twist"`
	// FirstHello (DTLS 1.2): the cookie-less first ClientHello is rewritten in transit so that it
	// offers everything the server would accept (scn_c11first.go); the second one is genuine
	FirstHello bool `json:"first_hello,omitempty"`
}

func c11Counts(tier string) (int, int) {
	if tier == "thorough" {
		return 0, 100000000
	}

	return 0, 10000000
}

func disjointSplit[T any](r *rand.Rand, universe []T) (a, b []T) {
	u := shuffled(r, universe)
	k := 1 + r.IntN(len(u)-1)

	return u[:k], u[k:]
}

func c11Gen(r *rand.Rand, tier string, idx int) any {
	p := &C11Params{}
	var core string
	p.C, p.Srv, core = genCompatiblePair(r)
	twists := []string{"none", "none", "version", "suites", "keytype", "curves", "srtp", "alpn", "ems", "history-ems", "history-lists", "random-lists", "sigschemes", "sigschemes"}
	p.Twist = twists[r.IntN(len(twists))]
	is12 := p.C.MaxVer == 12 && p.Srv.MaxVer == 12
	switch p.Twist {
	case "version":
		if r.IntN(2) == 0 {
			p.C.MinVer, p.C.MaxVer, p.Srv.MinVer, p.Srv.MaxVer = 13, 13, 12, 12
		} else {
			p.C.MinVer, p.C.MaxVer, p.Srv.MinVer, p.Srv.MaxVer = 12, 12, 13, 13
		}
		p.C.Suites, p.Srv.Suites = nil, nil
		if p.C.PSK != "" {
			p.Twist = "none"
			p.C.MinVer, p.C.MaxVer, p.Srv.MinVer, p.Srv.MaxVer = 12, 12, 12, 12
		}
	case "suites":
		if is12 && p.Srv.Cert != "" && certKind(p.Srv.Cert) == "ecdsa" {
			p.C.Suites, p.Srv.Suites = disjointSplit(r, suitesECDSA12)
		} else if is12 && p.C.PSK != "" && len(p.C.Suites) > 0 && p.C.Suites[0] != suiteECDHEPSKCBC {
			p.C.Suites, p.Srv.Suites = disjointSplit(r, suitesPSK12)
		} else if !is12 && p.C.MinVer == 13 && p.Srv.MinVer == 13 {
			p.C.Suites, p.Srv.Suites = disjointSplit(r, suites13)
		} else {
			p.Twist = "none"
		}
	case "keytype":
		if is12 && p.Srv.Cert != "" {
			if certKind(p.Srv.Cert) == "rsa" {
				p.C.Suites, p.Srv.Suites = subsetWith(r, suitesECDSA12, suiteECDSAGCM), nil
			} else {
				p.C.Suites, p.Srv.Suites = subsetWith(r, suitesRSA12, suiteRSAGCM), nil
			}
		} else {
			p.Twist = "none"
		}
	case "curves":
		if p.C.PSK == "" || (len(p.C.Suites) > 0 && p.C.Suites[0] == suiteECDHEPSKCBC) {
			p.C.Curves, p.Srv.Curves = disjointSplit(r, curvesAll)
		} else {
			p.Twist = "none"
		}
	case "sigschemes":
		// signature_algorithms: disjoint lists (no common scheme), or random overlapping ones
		if p.Srv.Cert != "" && certKind(p.Srv.Cert) == "ecdsa" {
			if r.IntN(2) == 0 {
				p.C.SigSchemes, p.Srv.SigSchemes = disjointSplit(r, sigSchemesECDSA)
			} else {
				p.C.SigSchemes = subsetWith(r, sigSchemesECDSA, sigSchemesECDSA[r.IntN(len(sigSchemesECDSA))])
				p.Srv.SigSchemes = subsetWith(r, sigSchemesECDSA, sigSchemesECDSA[r.IntN(len(sigSchemesECDSA))])
			}
		} else {
			p.Twist = "none"
		}
	case "srtp":
		a, b := disjointSplit(r, []uint16{1, 2, 7, 8})
		p.C.SRTP, p.Srv.SRTP = a, b
	case "alpn":
		a, b := disjointSplit(r, []string{"h3", "webrtc", "coap", "x"})
		p.C.ALPN, p.Srv.ALPN = a, b
	case "ems":
		if is12 {
			if r.IntN(2) == 0 {
				p.C.EMS, p.Srv.EMS = 1, 2
			} else {
				p.C.EMS, p.Srv.EMS = 2, 1
			}
		} else {
			p.Twist = "none"
		}
	case "history-ems", "history-lists":
		if is12 {
			p.C.Store, p.Srv.Store = "cstore", "sstore"
			c2, s2 := p.C, p.Srv
			if p.Twist == "history-ems" {
				// first connection without EMS, second one requires it (or the reverse)
				pairs := [][4]int{{0, 2, 1, 2}, {2, 0, 2, 1}, {0, 2, 1, 0}, {2, 2, 1, 1}, {0, 0, 2, 1}}
				e := pairs[r.IntN(len(pairs))]
				p.C.EMS, p.Srv.EMS, c2.EMS, s2.EMS = e[0], e[1], e[2], e[3]
			} else {
				// second connection narrows a list so that the first connection's value is no longer allowed
				switch r.IntN(3) {
				case 0:
					if len(p.C.Suites) > 1 {
						c2.Suites = p.C.Suites[len(p.C.Suites)-1:]
					}
				case 1:
					c2.ALPN, s2.ALPN = []string{"only-c"}, []string{"only-s"}
				case 2:
					if len(p.Srv.Suites) > 1 {
						s2.Suites = p.Srv.Suites[len(p.Srv.Suites)-1:]
					}
				}
			}
			p.C2, p.Srv2 = &c2, &s2
		} else {
			p.Twist = "none"
		}
	case "random-lists":
		if is12 && p.Srv.Cert != "" && certKind(p.Srv.Cert) == "ecdsa" {
			p.C.Suites = subsetWith(r, suitesECDSA12, suitesECDSA12[r.IntN(len(suitesECDSA12))])
			p.Srv.Suites = subsetWith(r, suitesECDSA12, suitesECDSA12[r.IntN(len(suitesECDSA12))])
			p.C.Curves = subsetWith(r, curvesAll, curvesAll[r.IntN(3)])
			p.Srv.Curves = subsetWith(r, curvesAll, curvesAll[r.IntN(3)])
		}
	}
	_ = core
	if p.C.MaxVer == 12 && p.Srv.MaxVer == 12 && r.IntN(3) == 0 {
		p.FirstHello = true
	}
	if r.IntN(5) == 0 {
		p.Rules = NetRules{DropPm: 30 + r.IntN(150), DupPm: r.IntN(100), FaultsUntilIdx: 3 + r.IntN(10)}
	}

	return p
}

// schemes an ECDSA key can sign with (in TLS 1.2 the hash is independent of the curve)
var sigSchemesECDSA = []uint16{0x0403, 0x0503, 0x0603}

func certKind(name string) string {
	switch name {
	case "srv-rsa", "cli-rsa":
		return "rsa"
	case "srv-ed25519", "cli-ed25519":
		return "ecdsa" // Ed25519 certificates ride the ECDSA suites
	}

	return "ecdsa"
}

func suiteVersion(s uint16) int {
	if s>>8 == 0x13 {
		return 13
	}

	return 12
}

func suiteKind(s uint16) string {
	switch s {
	case suitePSKGCM, suitePSKCCM8, 0xc0a4, suitePSKCBC, suitePSKChaCha, 0xc0a9:
		return "psk"
	case suiteECDHEPSKCBC:
		return "ecdhepsk"
	case suiteRSAGCM, 0xc030, 0xc014, 0xcca8:
		return "rsa"
	}
	if suiteVersion(s) == 13 {
		return "13"
	}

	return "ecdsa"
}

func allowedVersions(e EpSpec) []int {
	var out []int
	for v := 12; v <= 13; v++ {
		if v < e.MinVer || v > e.MaxVer {
			continue
		}
		ok := len(e.Suites) == 0
		for _, s := range e.Suites {
			ok = ok || suiteVersion(s) == v
		}
		if v == 13 && e.PSK != "" {
			ok = false
		}
		if ok {
			out = append(out, v)
		}
	}

	return out
}

func inU16(l []uint16, v uint16) bool {
	for _, x := range l {
		if x == v {
			return true
		}
	}

	return false
}

func intersects(a, b []uint16) bool {
	for _, x := range a {
		if inU16(b, x) {
			return true
		}
	}

	return false
}

// policyVerdict is the executable reading of the statement for one connection.
type policyVerdict struct {
	Version  int    // highest common version, 0 if none
	MustFail string // non-empty: no common value exists in this dimension
}

func judgePolicy(c, s EpSpec) policyVerdict {
	var v policyVerdict
	for _, x := range allowedVersions(c) {
		for _, y := range allowedVersions(s) {
			if x == y && x > v.Version {
				v.Version = x
			}
		}
	}
	if v.Version == 0 {
		v.MustFail = "version"

		return v
	}
	filter := func(l []uint16) []uint16 {
		var out []uint16
		for _, x := range l {
			if suiteVersion(x) == v.Version {
				out = append(out, x)
			}
		}

		return out
	}
	cs, ss := filter(c.Suites), filter(s.Suites)
	if len(c.Suites) > 0 && len(s.Suites) > 0 && !intersects(cs, ss) {
		v.MustFail = "suites"

		return v
	}
	if v.Version == 12 && s.Cert != "" && len(c.Suites) > 0 {
		fits := false
		for _, x := range cs {
			if suiteKind(x) == certKind(s.Cert) && (len(s.Suites) == 0 || inU16(ss, x)) {
				fits = true
			}
		}
		if !fits {
			v.MustFail = "keytype"

			return v
		}
	}
	usesCurves := s.Cert != "" || (len(cs) > 0 && suiteKind(cs[0]) == "ecdhepsk")
	if usesCurves && len(c.Curves) > 0 && len(s.Curves) > 0 && !intersects(c.Curves, s.Curves) {
		v.MustFail = "curves"

		return v
	}
	if s.Cert != "" && len(c.SigSchemes) > 0 && len(s.SigSchemes) > 0 && !intersects(c.SigSchemes, s.SigSchemes) {
		v.MustFail = "sigschemes"

		return v
	}
	if v.Version == 12 && ((c.EMS == 1 && s.EMS == 2) || (c.EMS == 2 && s.EMS == 1)) {
		v.MustFail = "ems"
	}

	return v
}

// c11Judge checks one finished connection attempt against the policy model.
func c11Judge(rc *RunCtx, pair *Pair, n *SimNet, c, s EpSpec, which string) bool {
	v := judgePolicy(c, s)
	col := NewHsCollector()
	fatalAlerts := 0
	for _, em := range n.Emits {
		cid := len(s.CIDOf())
		if em.Ep == pair.SName {
			cid = len(c.CIDOf())
		}
		col.Feed(em, cid)
		recs, _ := ParseDatagram(em.Data, cid)
		for _, r := range recs {
			if !r.Unified && r.Type == CTAlert && r.Epoch == 0 && len(r.Body) == 2 && r.Body[0] == 2 {
				fatalAlerts++
			}
			// once a connection ID is negotiated the library frames even its epoch-0 alerts as
			// tls12_cid records with a cleartext inner plaintext (level, description, real type 21)
			if !r.Unified && r.Type == CTCID && r.Epoch == 0 && len(r.Body) == 3 && r.Body[0] == 2 && r.Body[2] == CTAlert {
				fatalAlerts++
				rc.S.Probe("epoch-0-alert-in-tls12_cid-framing")
			}
		}
	}
	both := pair.BothOK()
	if v.MustFail != "" {
		rc.S.Probe("model-says-must-fail:" + v.MustFail)
		if pair.CHs.Done && pair.CHs.Err == nil || pair.SHs.Done && pair.SHs.Err == nil {
			rc.Violate("completed-out-of-policy:"+v.MustFail, "%s: no common %s exists between the two configurations, yet a handshake succeeded (client err=%v, server err=%v)", which, v.MustFail, pair.CHs.Err, pair.SHs.Err)

			return false
		}
		if !pair.BothDone() {
			rc.Violate("no-common-value-hangs:"+v.MustFail, "%s: no common %s exists; client done=%v server done=%v after the horizon on a network without loss after the handshake window", which, v.MustFail, pair.CHs.Done, pair.SHs.Done)

			return false
		}
		if fatalAlerts == 0 && len(n.Rules.Mask) == 0 && n.Rules.DropPm == 0 {
			rc.Violate("no-alert:"+v.MustFail, "%s: no common %s exists and both sides failed, but no fatal alert was emitted by either", which, v.MustFail)

			return false
		}

		return true
	}
	if !both {
		rc.S.Probe("possible-but-failed")

		return true
	}
	rc.S.Probe("both-ok")
	cv, sv := dtls.VerifSessionOf(pair.Client), dtls.VerifSessionOf(pair.Server)
	wantVer := uint16(0xfefd)
	if v.Version == 13 {
		wantVer = 0xfefc
	}
	if cv.Version != wantVer || sv.Version != wantVer {
		rc.Violate("version-not-highest-common", "%s: highest version both allow is 1.%d, negotiated client %#04x server %#04x", which, v.Version-10, cv.Version, sv.Version)

		return false
	}
	cst, _ := pair.Client.ConnectionState()
	suite := uint16(cst.CipherSuiteID)
	chs := col.Of(pair.CName, HTClientHello)
	shs := col.Of(pair.SName, HTServerHello)
	if len(chs) == 0 || len(shs) == 0 {
		rc.Violate("wire-missing-hello", "%s: handshake succeeded but the wire monitor saw %d ClientHello and %d ServerHello", which, len(chs), len(shs))

		return false
	}
	ch, err1 := ParseClientHello(chs[len(chs)-1].Body)
	sh, err2 := ParseServerHello(shs[len(shs)-1].Body)
	if err1 != nil || err2 != nil {
		rc.Violate("wire-hello-parse", "%s: %v %v", which, err1, err2)

		return false
	}
	if !inU16(ch.Suites, suite) || (len(c.Suites) > 0 && !inU16(c.Suites, suite)) {
		rc.Violate("suite-not-offered", "%s: negotiated suite %#04x was not offered by the client (config %v, wire %v)", which, suite, c.Suites, ch.Suites)

		return false
	}
	if len(s.Suites) > 0 && !inU16(s.Suites, suite) {
		rc.Violate("suite-not-enabled", "%s: negotiated suite %#04x is not enabled on the server (%v)", which, suite, s.Suites)

		return false
	}
	if v.Version == 12 && s.Cert != "" && suiteKind(suite) != certKind(s.Cert) {
		rc.Violate("suite-keytype", "%s: suite %#04x (%s) does not fit the server's %s key", which, suite, suiteKind(suite), certKind(s.Cert))

		return false
	}
	// key-exchange group
	group, haveGroup := uint16(0), false
	if v.Version == 12 {
		if skes := col.Of(pair.SName, HTServerKeyExchange); len(skes) > 0 && suiteKind(suite) != "psk" {
			group, haveGroup = ServerKeyExchangeCurve(skes[len(skes)-1].Body, suiteKind(suite) == "ecdhepsk")
		}
	} else if ks, ok := sh.Ext(ExtKeyShare); ok && len(ks) >= 2 {
		group, haveGroup = uint16(ks[0])<<8|uint16(ks[1]), true
	}
	if haveGroup {
		rc.S.Probe("group-checked")
		if (len(c.Curves) > 0 && !inU16(c.Curves, group)) || (len(s.Curves) > 0 && !inU16(s.Curves, group)) {
			rc.Violate("group-out-of-policy", "%s: key-exchange group %#04x; client allows %v, server allows %v", which, group, c.Curves, s.Curves)

			return false
		}
	}
	// signature scheme of the server's key-exchange signature (DTLS 1.2: visible on the wire)
	if v.Version == 12 && s.Cert != "" {
		if skes := col.Of(pair.SName, HTServerKeyExchange); len(skes) > 0 {
			if scheme, ok := ServerKeyExchangeScheme(skes[len(skes)-1].Body); ok {
				rc.S.Probe("signature-scheme-checked")
				if (len(c.SigSchemes) > 0 && !inU16(c.SigSchemes, scheme)) || (len(s.SigSchemes) > 0 && !inU16(s.SigSchemes, scheme)) {
					rc.Violate("sigscheme-out-of-policy", "%s: ServerKeyExchange is signed with scheme %#04x; client offers %#04x, server allows %#04x", which, scheme, c.SigSchemes, s.SigSchemes)

					return false
				}
			}
		}
	}
	// SRTP / ALPN
	if prof, ok := pair.Client.SelectedSRTPProtectionProfile(); ok {
		if !inU16(c.SRTP, uint16(prof)) || !inU16(s.SRTP, uint16(prof)) {
			rc.Violate("srtp-out-of-policy", "%s: SRTP profile %d; client list %v, server list %v", which, prof, c.SRTP, s.SRTP)

			return false
		}
	}
	if prof, ok := pair.Server.SelectedSRTPProtectionProfile(); ok {
		if !inU16(c.SRTP, uint16(prof)) || !inU16(s.SRTP, uint16(prof)) {
			rc.Violate("srtp-out-of-policy", "%s: server-side SRTP profile %d; client list %v, server list %v", which, prof, c.SRTP, s.SRTP)

			return false
		}
	}
	for _, proto := range []string{cv.NegotiatedProtocol, sv.NegotiatedProtocol} {
		if proto == "" {
			continue
		}
		inC, inS := false, false
		for _, a := range c.ALPN {
			inC = inC || a == proto
		}
		for _, a := range s.ALPN {
			inS = inS || a == proto
		}
		if !inC || !inS {
			rc.Violate("alpn-out-of-policy", "%s: ALPN %q; client list %v, server list %v", which, proto, c.ALPN, s.ALPN)

			return false
		}
	}
	// extended master secret
	if v.Version == 12 {
		_, chEMS := ch.Ext(ExtEMS)
		_, shEMS := sh.Ext(ExtEMS)
		if (c.EMS == 1 || s.EMS == 1) && !(chEMS && shEMS) {
			rc.Violate("ems-required-but-absent", "%s: a side requires extended master secret (client policy %d, server policy %d) and completed, but the hellos carry it client=%v server=%v", which, c.EMS, s.EMS, chEMS, shEMS)

			return false
		}
		if c.EMS == 1 && !cv.ExtendedMasterSec || s.EMS == 1 && !sv.ExtendedMasterSec {
			rc.Violate("ems-required-but-absent", "%s: a side that requires extended master secret completed without it (client %v server %v)", which, cv.ExtendedMasterSec, sv.ExtendedMasterSec)

			return false
		}
		if c.EMS == 1 || s.EMS == 1 {
			rc.S.Probe("ems-required-and-present")
		}
	}
	// the server never answers with an extension the client did not offer
	for _, e := range sh.Exts {
		if _, ok := ch.Ext(e.Type); !ok {
			if e.Type == ExtRenegotiationInf && inU16(ch.Suites, 0x00ff) {
				continue
			}
			rc.Violate("unsolicited-extension", "%s: ServerHello carries extension %d which the ClientHello did not offer", which, e.Type)

			return false
		}
	}

	return true
}

func c11Run(rc *RunCtx, params any) {
	p := params.(*C11Params)
	s := rc.S
	rc.R.Class = p.Twist
	rc.R.NonTriv = true
	env := &Env{Stores: map[string]dtls.SessionStore{"cstore": NewSimStore(s, "cstore", 0), "sstore": NewSimStore(s, "sstore", 0)}}
	run := func(c, sv EpSpec, cname, sname, which string, rules NetRules) bool {
		n := NewSimNet(s, rules)
		pair, err := NewPairNamed(s, n, c, sv, env, cname, sname)
		if err != nil {
			s.Probe("config-rejected")

			return true
		}
		if p.FirstHello && c.MaxVer == 12 && sv.MaxVer == 12 && !sv.SkipHelloVerify {
			n.Rewrite = func(e *Emission) []byte {
				if e.Ep != cname {
					return e.Data
				}
				out, changed := rewriteUnfragmented(e.Data, HTClientHello, func(b []byte) []byte { return permissiveFirstHello(b, sv) })
				if changed > 0 {
					s.Fault("first-hello-made-permissive")
				}

				return out
			}
		}
		pair.StartHandshakes(5 * time.Minute)
		s.Run(pair.BothDone, 6*time.Minute)
		ok := c11Judge(rc, pair, n, c, sv, which)
		pair.Teardown()

		return ok
	}
	if !run(p.C, p.Srv, "c", "s", "connection 1", p.Rules) {
		return
	}
	if p.C2 != nil {
		s.Probe("second-connection")
		run(*p.C2, *p.Srv2, "c2", "s2", "connection 2 (same stores, changed policy)", NetRules{})
	}
	_ = fmt.Sprint
}

func init() {
	Register(&Scenario{
		ID:        "C11",
		Counts:    c11Counts,
		Gen:       c11Gen,
		NewParams: func() any { return &C11Params{} },
		Run:       c11Run,
	})
}
