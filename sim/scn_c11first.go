package verifsim

// C11, first-hello tampering: the cookie-less first ClientHello of a DTLS 1.2 handshake is outside
// the Finished hash, so whoever sits on the path can rewrite it. permissiveFirstHello makes it offer
// everything the *server* would like to see - extended master secret, the server's suites, groups,
// signature schemes, SRTP profiles and ALPN names on top of the client's own - while the genuine
// second ClientHello is left alone. A server that commits to anything it read in the first hello
// negotiates a value the client never offered.
func permissiveFirstHello(body []byte, srv EpSpec) []byte {
	p, ok := locateCH(body)
	if !ok || p.extOff+2 > len(body) || body[p.cookieOff] != 0 {
		return body
	}
	// cipher suites: the client's own followed by everything the server enables
	nSu := int(be(body[p.suitesOff : p.suitesOff+2]))
	suites := append([]byte(nil), body[p.suitesOff+2:p.suitesOff+2+nSu]...)
	extra := srv.Suites
	if len(extra) == 0 {
		extra = append(append(append([]uint16(nil), suitesECDSA12...), suitesRSA12...), suitesPSK12...)
	}
	have := map[uint16]bool{}
	for i := 0; i+1 < len(suites); i += 2 {
		have[uint16(suites[i])<<8|uint16(suites[i+1])] = true
	}
	var front []byte
	for _, x := range extra {
		if !have[x] {
			front = append(front, byte(x>>8), byte(x))
		}
	}
	suites = append(front, suites...) // the server's favourites first
	u16list := func(old []byte, add []uint16) []byte {
		var cur []byte
		if len(old) >= 2 {
			cur = append(cur, old[2:]...)
		}
		seen := map[uint16]bool{}
		for i := 0; i+1 < len(cur); i += 2 {
			seen[uint16(cur[i])<<8|uint16(cur[i+1])] = true
		}
		for _, x := range add {
			if !seen[x] {
				cur = append(cur, byte(x>>8), byte(x))
			}
		}

		return append([]byte{byte(len(cur) >> 8), byte(len(cur))}, cur...)
	}
	exts := parseExts(body[p.extOff+2:])
	find := func(t uint16) int {
		for i, e := range exts {
			if e.Type == t {
				return i
			}
		}
		exts = append(exts, Ext{Type: t})

		return len(exts) - 1
	}
	if srv.EMS != 2 {
		find(ExtEMS)
	}
	if len(srv.Curves) > 0 {
		i := find(ExtSupportedGroups)
		exts[i].Body = u16list(exts[i].Body, srv.Curves)
	}
	if len(srv.SigSchemes) > 0 {
		i := find(13)
		exts[i].Body = u16list(exts[i].Body, srv.SigSchemes)
	}
	if len(srv.SRTP) > 0 {
		i := find(ExtUseSRTP)
		var profs, mki []byte
		if b := exts[i].Body; len(b) >= 2 {
			k := int(be(b[:2]))
			if 2+k <= len(b) {
				profs, mki = append(profs, b[2:2+k]...), append(mki, b[2+k:]...)
			}
		}
		l := u16list(append([]byte{0, 0}, profs...), srv.SRTP)
		if len(mki) == 0 {
			mki = []byte{0}
		}
		exts[i].Body = append(l, mki...)
	}
	if len(srv.ALPN) > 0 {
		i := find(ExtALPN)
		var names []byte
		if b := exts[i].Body; len(b) >= 2 {
			names = append(names, b[2:]...)
		}
		for _, a := range srv.ALPN {
			names = append(append(names, byte(len(a))), a...)
		}
		exts[i].Body = append([]byte{byte(len(names) >> 8), byte(len(names))}, names...)
	}
	out := append([]byte(nil), body[:p.suitesOff]...)
	out = append(out, byte(len(suites)>>8), byte(len(suites)))
	out = append(out, suites...)
	out = append(out, body[p.compOff:p.extOff]...)
	var eb []byte
	for _, e := range exts {
		eb = append(eb, byte(e.Type>>8), byte(e.Type), byte(len(e.Body)>>8), byte(len(e.Body)))
		eb = append(eb, e.Body...)
	}
	out = append(out, byte(len(eb)>>8), byte(len(eb)))

	return append(out, eb...)
}
