package verifsim

import (
	"bytes"
	"fmt"
	"math/rand/v2"
	"time"

	dtls "github.com/pion/dtls/v3"
	"github.com/pion/dtls/v3/internal/fragmentbuffer"
	"github.com/pion/dtls/v3/pkg/protocol/handshake"
)

// C12: fragmentation and reassembly reproduce every handshake message exactly
// once, in message-sequence order, never before it is complete.
//
// Arena (a): the real sender path (Conn.fragmentHandshake) feeds the real
// FragmentBuffer through a one-link network that permutes, duplicates,
// re-splits and interleaves the fragments. Arena (b): a quarter of the sampled
// runs are whole small-MTU DTLS 1.2 handshakes whose datagrams are reordered and
// duplicated but never lost; they must complete.

type C12Frag struct {
	Msg int `json:"m"` // message index
	Off int `json:"o"`
	Len int `json:"l"`
}

type C12Params struct {
	MTU     int       `json:"mtu"`
	Lens    []int     `json:"lens"`       // body length of each message, message_seq = index
	Arrival []C12Frag `json:"arrival"`    // fragments in arrival order (may repeat)
	PerRec  int       `json:"per_record"` // fragments packed per record (1..3)
	Enum    string    `json:"enum,omitempty"`
	Sender  bool      `json:"sender"` // arrival derived from the real sender's partition (else adversarial partition)
	// E2E: instead of the component arena, a whole DTLS 1.2 handshake at this MTU whose datagrams
	// are reordered and duplicated but never lost: every fragment arrives, so every message must
	// be reassembled and the handshake must complete
	E2E    string   `json:"e2e,omitempty"` // handshake variant
	E2ENet NetRules `json:"e2e_net,omitempty"`
	// Repack (E2E): the path re-packs the cleartext handshake records of every datagram into one
	// record carrying all their fragments (1), and also puts a copy of the first fragment of the
	// sender's previous datagram in front (2): what a peer that packs several handshake messages
	// per record, and repeats one, may legally send (RFC 6347 4.2.3)
	Repack int `json:"repack,omitempty"`
}

func c12Counts(tier string) (int, int) {
	if tier == "thorough" {
		return c12EnumCount(6), 100000000
	}

	return c12EnumCount(4), 10000000
}

// enumeration: one message of length L<=maxL, every composition (partition into
// consecutive non-empty fragments), every permutation of the fragments, with one
// duplicate inserted at every position — counted by explicit generation.
var c12EnumCache = map[int][]C12Params{}

func compositions(n int) [][]int {
	if n == 0 {
		return [][]int{{}}
	}
	var out [][]int
	for first := 1; first <= n; first++ {
		for _, rest := range compositions(n - first) {
			out = append(out, append([]int{first}, rest...))
		}
	}

	return out
}

func permutations(n int) [][]int {
	if n == 0 {
		return [][]int{{}}
	}
	var out [][]int
	for _, p := range permutations(n - 1) {
		for i := 0; i <= len(p); i++ {
			q := append(append(append([]int(nil), p[:i]...), n-1), p[i:]...)
			out = append(out, q)
		}
	}

	return out
}

func c12Enum(maxL int) []C12Params {
	if v, ok := c12EnumCache[maxL]; ok {
		return v
	}
	var out []C12Params
	for L := 0; L <= maxL; L++ {
		for _, comp := range compositions(L) {
			var frags []C12Frag
			off := 0
			for _, l := range comp {
				frags = append(frags, C12Frag{0, off, l})
				off += l
			}
			if L == 0 {
				frags = []C12Frag{{0, 0, 0}}
			}
			for _, perm := range permutations(len(frags)) {
				base := make([]C12Frag, len(perm))
				for i, k := range perm {
					base[i] = frags[k]
				}
				// no duplicate
				out = append(out, C12Params{MTU: 1200, Lens: []int{L, 3}, Arrival: append(append([]C12Frag(nil), base...), C12Frag{1, 0, 3}), PerRec: 1})
				// one duplicate of each fragment at each position
				for d := range base {
					for pos := 0; pos <= len(base); pos++ {
						arr := append(append(append([]C12Frag(nil), base[:pos]...), base[d]), base[pos:]...)
						arr = append(arr, C12Frag{1, 0, 3})
						out = append(out, C12Params{MTU: 1200, Lens: []int{L, 3}, Arrival: arr, PerRec: 1})
					}
				}
			}
		}
	}
	c12EnumCache[maxL] = out

	return out
}

func c12EnumCount(maxL int) int { return len(c12Enum(maxL)) }

func c12Gen(r *rand.Rand, tier string, idx int) any {
	maxL := 4
	if tier == "thorough" {
		maxL = 6
	}
	en := c12Enum(maxL)
	if idx < len(en) {
		p := en[idx]
		p.Enum = fmt.Sprintf("length<=%d: all partitions x all permutations x one duplicate at every position", maxL)

		return &p
	}
	if r.IntN(4) == 0 {
		e := &C12Params{E2E: []string{"12-cert", "12-clientauth", "12-ecdhepsk", "12-cid", "12-nohv", "13-full", "13-clientauth", "13-hrr"}[r.IntN(8)], MTU: []int{64, 100, 150, 300, 1200}[r.IntN(5)]}
		e.E2ENet = NetRules{DupPm: r.IntN(200), HoldPm: 50 + r.IntN(400), FaultsUntilIdx: 10 + r.IntN(60), HoldMaxNs: int64(time.Millisecond) * int64(1+r.IntN(400))}
		if r.IntN(2) == 0 {
			// fragments are also lost (finitely): the retransmission has to bring exactly the missing
			// pieces, with the right offsets and lengths, possibly more than once
			e.E2ENet.DropPm = 50 + r.IntN(300)
		}
		e.Repack = []int{0, 0, 1, 2}[r.IntN(4)]

		return e
	}
	p := &C12Params{PerRec: 1 + r.IntN(3)}
	p.MTU = []int{1, 2, 3, 7, 16, 64, 100, 255, 256, 1200, 1500}[r.IntN(11)]
	nmsg := 1 + r.IntN(5)
	for i := 0; i < nmsg; i++ {
		var l int
		switch r.IntN(6) {
		case 0:
			l = 0
		case 1:
			l = 1 + r.IntN(8)
		case 2:
			l = p.MTU * (1 + r.IntN(4))
		case 3:
			l = 1 + r.IntN(20000)
		default:
			l = 1 + r.IntN(700)
		}
		if l/p.MTU > 120 { // stay inside the buffer's documented 1000-fragment limit
			l = p.MTU * (1 + r.IntN(120))
		}
		p.Lens = append(p.Lens, l)
	}
	p.Sender = r.IntN(3) != 0
	// partition each message
	var all []C12Frag
	for m, L := range p.Lens {
		var frags []C12Frag
		if p.Sender {
			frags = nil // filled at run time from the real sender
			all = append(all, C12Frag{m, -1, -1})

			continue
		}
		off := 0
		for off < L {
			l := 1 + r.IntN(L-off)
			if r.IntN(3) == 0 && l > 16 {
				l = 1 + r.IntN(16)
			}
			if L > 2000 && l < L/100 {
				l = min(L/100, L-off)
			}
			frags = append(frags, C12Frag{m, off, l})
			off += l
		}
		if L == 0 {
			frags = append(frags, C12Frag{m, 0, 0})
		}
		// zero-length fragments inside the message
		for r.IntN(4) == 0 {
			frags = append(frags, C12Frag{m, r.IntN(L + 1), 0})
		}
		all = append(all, frags...)
	}
	p.Arrival = all
	// arrival order, duplicates and interleaving are decided at run time through the chooser

	return p
}

type refMsg struct {
	body    []byte
	have    []bool
	gotZero bool
	done    bool
}

func (m *refMsg) complete() bool {
	if len(m.body) == 0 {
		return m.gotZero
	}
	for _, h := range m.have {
		if !h {
			return false
		}
	}

	return true
}

func c12E2E(rc *RunCtx, p *C12Params) {
	s := rc.S
	v, ok := variantByName(p.E2E)
	if !ok {
		rc.Violate("harness", "unknown variant")

		return
	}
	rc.R.Class = fmt.Sprintf("e2e/%s/mtu%d", v.Name, p.MTU)
	rc.R.NonTriv = true
	applyKnobs(&v.C, 0, false, p.MTU)
	applyKnobs(&v.S, 0, false, p.MTU)
	n := NewSimNet(s, p.E2ENet)
	if p.Repack > 0 {
		rc.R.Class += fmt.Sprintf("/repack%d", p.Repack)
		prev := map[string][]byte{} // per sender: first cleartext handshake fragment of its previous datagram
		n.Rewrite = func(e *Emission) []byte {
			recs, perr := ParseDatagram(e.Data, 0)
			if perr != nil {
				return e.Data
			}
			var out, run, first []byte
			var hdr []byte
			flush := func() {
				if hdr == nil {
					return
				}
				h := append([]byte(nil), hdr[:11]...)
				out = append(append(append(out, h...), byte(len(run)>>8), byte(len(run))), run...)
				hdr, run = nil, nil
			}
			for _, r := range recs {
				if r.Unified || r.Type != CTHandshake || r.Epoch != 0 || len(r.Hs) == 0 {
					flush()
					out = append(out, r.Raw...)

					continue
				}
				if hdr == nil {
					hdr = r.Raw[:13]
					if p.Repack == 2 && prev[e.Ep] != nil && len(out) == 0 {
						run = append(run, prev[e.Ep]...)
						s.Fault("repeated-fragment-in-front-of-new-ones")
					}
				} else {
					s.Fault("records-merged")
				}
				run = append(run, r.Body...)
				if first == nil {
					f := r.Hs[0]
					first = append([]byte(nil), r.Body[:12+int(f.FLen)]...)
				}
			}
			flush()
			if first != nil {
				prev[e.Ep] = first
			}

			return out
		}
	}
	pair, err := NewPair(s, n, v.C, v.S, nil)
	if err != nil {
		rc.Violate("harness", "config: %v", err)

		return
	}
	defer pair.Teardown()
	pair.StartHandshakes(0)
	for {
		limit := n.LastFaultAt + c02Bound
		if s.Now() >= limit || s.Run(pair.BothDone, limit-s.Now()) || len(s.Failures()) > 0 || len(s.Panics) > 0 {
			break
		}
	}
	if s.Overrun() {
		return
	}
	if !pair.BothOK() {
		rc.Violate("e2e-not-reassembled", "%s at MTU %d with datagrams reordered, duplicated and (if the plan says so, finitely) lost: the handshake did not complete (client done=%v err=%v at %s, server done=%v err=%v at %s)", v.Name, p.MTU,
			pair.CHs.Done, pair.CHs.Err, pair.Env.FSMState("c"), pair.SHs.Done, pair.SHs.Err, pair.Env.FSMState("s"))

		return
	}
	s.Probe("e2e-handshake-reassembled-under-reordering")
}

func c12Run(rc *RunCtx, params any) {
	p := params.(*C12Params)
	s := rc.S
	if p.E2E != "" {
		c12E2E(rc, p)

		return
	}
	rc.R.Class = fmt.Sprintf("mtu%d/msgs%d", p.MTU, len(p.Lens))
	// the real sender
	sock := NewSimNet(s, NetRules{}).NewConn("c", Addr(1, 1))
	conn, err := dtls.ClientWithOptions(sock, Addr(2, 2), dtls.WithMTU(p.MTU), dtls.WithInsecureSkipVerify(true))
	if err != nil {
		rc.Violate("harness", "conn: %v", err)

		return
	}
	bodies := make([][]byte, len(p.Lens))
	for m, L := range p.Lens {
		b := make([]byte, L)
		for i := range b {
			b[i] = byte(m*31 + i*7 + 1)
		}
		bodies[m] = b
	}
	// expand sender-partitioned messages through the real fragmentHandshake
	var frags []C12Frag
	for _, f := range p.Arrival {
		if f.Off >= 0 {
			frags = append(frags, f)

			continue
		}
		m := f.Msg
		hs := &handshake.Handshake{
			Header:  handshake.Header{Type: handshake.TypeFinished, Length: uint32(len(bodies[m])), MessageSequence: uint16(m)},
			Message: &handshake.MessageFinished{VerifyData: bodies[m]},
		}
		raw, err := dtls.VerifFragmentHandshake(conn, hs)
		if err != nil {
			rc.Violate("sender-error", "fragmentHandshake(len %d, mtu %d): %v", len(bodies[m]), p.MTU, err)

			return
		}
		covered := 0
		for i, fr := range raw {
			hf := ParseHsFrags(fr)
			if len(hf) != 1 || int(hf[0].FLen)+12 != len(fr) {
				rc.Violate("sender-malformed", "fragment %d of message %d is not one well-formed handshake fragment", i, m)

				return
			}
			h := hf[0]
			if int(h.FLen) > p.MTU {
				rc.Violate("sender-mtu", "message %d (len %d): fragment carries %d body bytes > MTU %d", m, len(bodies[m]), h.FLen, p.MTU)

				return
			}
			if int(h.Off) != covered || int(h.Length) != len(bodies[m]) || h.MsgSeq != uint16(m) || h.Type != HTFinished ||
				!bytes.Equal(h.Body, bodies[m][h.Off:h.Off+h.FLen]) {
				rc.Violate("sender-wrong", "message %d: fragment %d (off %d len %d total %d) does not continue the partition at %d or carries wrong bytes", m, i, h.Off, h.FLen, h.Length, covered)

				return
			}
			covered += int(h.FLen)
			frags = append(frags, C12Frag{m, int(h.Off), int(h.FLen)})
		}
		if covered != len(bodies[m]) {
			rc.Violate("sender-incomplete", "message %d: fragments cover %d of %d bytes", m, covered, len(bodies[m]))

			return
		}
		// the fragments are a partition: as many as the body needs at this MTU, none of them empty
		// (a body-less message is one fragment of length 0)
		want := max(1, (len(bodies[m])+p.MTU-1)/p.MTU)
		if len(raw) != want {
			rc.Violate("sender-count", "message %d (len %d, MTU %d) was sent as %d fragments; a partition into fragments of at most MTU bytes has %d (an empty or a split-too-early fragment is on the wire)", m, len(bodies[m]), p.MTU, len(raw), want)

			return
		}
		if len(raw) > 1 {
			s.Probe("sender-fragmented")
		}
	}
	// the network: order, duplication, interleaving (explicit for enumerated plans)
	arrival := frags
	if p.Enum == "" {
		arrival = nil
		pool := append([]C12Frag(nil), frags...)
		for len(pool) > 0 {
			d := s.Ch.Draw("arr", func(r *rand.Rand) Dec {
				// mostly near the front (mild reordering), sometimes anywhere; sometimes duplicate
				k := 0
				if r.IntN(3) == 0 {
					k = r.IntN(len(pool))
				} else if len(pool) > 1 {
					k = r.IntN(min(4, len(pool)))
				}
				dup := int64(0)
				if r.IntN(6) == 0 {
					dup = 1
				}

				return Dec{A: int64(k), B: dup}
			})
			k := int(d.A)
			if k < 0 || k >= len(pool) {
				k = 0
			}
			arrival = append(arrival, pool[k])
			if d.B == 1 {
				s.Fault("dup-fragment")
				pool = append(pool, pool[k]) // the duplicate arrives again later
				pool[k] = pool[len(pool)-1]
				pool = pool[:len(pool)-1]
				if len(arrival) > 4*len(frags)+8 {
					pool = nil
				}

				continue
			}
			if k != 0 {
				s.Fault("reorder-fragment")
			}
			pool = append(pool[:k], pool[k+1:]...)
		}
	}
	// the real receiver, shadowed by a reference reassembler
	fb := fragmentbuffer.New()
	ref := make([]*refMsg, len(p.Lens))
	for m := range ref {
		ref[m] = &refMsg{body: bodies[m], have: make([]bool, len(bodies[m]))}
	}
	next := 0 // next message sequence to surface
	recSeq := uint64(0)
	perRec := p.PerRec
	if perRec < 1 {
		perRec = 1
	}
	for i := 0; i < len(arrival); i += perRec {
		group := arrival[i:min(i+perRec, len(arrival))]
		var body []byte
		expectRetransmit := false
		for _, f := range group {
			h := make([]byte, 12)
			h[0] = HTFinished
			L := len(bodies[f.Msg])
			h[1], h[2], h[3] = byte(L>>16), byte(L>>8), byte(L)
			h[4], h[5] = byte(f.Msg>>8), byte(f.Msg)
			h[6], h[7], h[8] = byte(f.Off>>16), byte(f.Off>>8), byte(f.Off)
			h[9], h[10], h[11] = byte(f.Len>>16), byte(f.Len>>8), byte(f.Len)
			body = append(body, h...)
			body = append(body, bodies[f.Msg][f.Off:f.Off+f.Len]...)
			if f.Msg < next {
				expectRetransmit = true
			}
		}
		rec := []byte{CTHandshake, 0xfe, 0xfd, 0, 0, byte(recSeq >> 40), byte(recSeq >> 32), byte(recSeq >> 24), byte(recSeq >> 16), byte(recSeq >> 8), byte(recSeq), byte(len(body) >> 8), byte(len(body))}
		recSeq++
		rec = append(rec, body...)
		if len(body) > 0xffff {
			continue
		}
		s.Record("frag", "rx", fmt.Sprint(group), nil)
		isHs, isRetransmit, err := fb.Push(rec)
		if err != nil || !isHs {
			rc.Violate("push-rejected", "Push of a well-formed handshake record (fragments %v) returned isHandshake=%v err=%v", group, isHs, err)

			return
		}
		if expectRetransmit && !isRetransmit {
			rc.Violate("retransmit-not-recognised", "record with a fragment of already delivered message (fragments %v, next=%d) was not reported as retransmission", group, next)

			return
		}
		if expectRetransmit {
			s.Probe("retransmission-recognised")
		}
		for _, f := range group {
			if f.Msg < next {
				continue
			}
			for k := f.Off; k < f.Off+f.Len; k++ {
				ref[f.Msg].have[k] = true
			}
			if f.Len == 0 && len(bodies[f.Msg]) == 0 {
				ref[f.Msg].gotZero = true
			}
		}
		for {
			out, _ := fb.Pop()
			if out == nil {
				break
			}
			if next >= len(ref) {
				rc.Violate("extra-message", "Pop surfaced a message beyond the %d that were sent", len(ref))

				return
			}
			if !ref[next].complete() {
				rc.Violate("surfaced-incomplete", "Pop surfaced message %d while bytes of it are still missing (after fragments %v)", next, group)

				return
			}
			hf := ParseHsFrags(out)
			if len(hf) != 1 || hf[0].MsgSeq != uint16(next) || hf[0].Off != 0 || int(hf[0].FLen) != len(bodies[next]) || !bytes.Equal(hf[0].Body, bodies[next]) {
				rc.Violate("wrong-message", "Pop #%d does not equal original message %d (len %d): got %d bytes", next, next, len(bodies[next]), len(out))

				return
			}
			ref[next].done = true
			next++
		}
		// everything complete in order must have surfaced by now
		if next < len(ref) && ref[next].complete() {
			rc.Violate("not-surfaced", "message %d is complete (every byte arrived) but Pop does not surface it (after fragments %v)", next, group)

			return
		}
	}
	rc.R.NonTriv = len(arrival) > len(p.Lens)
	if next == len(ref) {
		s.Probe("all-messages-surfaced")
	}
	_ = conn.Close()
}

func init() {
	Register(&Scenario{
		ID:        "C12",
		Counts:    c12Counts,
		Gen:       c12Gen,
		NewParams: func() any { return &C12Params{} },
		Run:       c12Run,
	})
}
