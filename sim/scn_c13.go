package verifsim

import (
	"bytes"
	"fmt"
	"math/rand/v2"
	"time"

	dtls "github.com/pion/dtls/v3"
)

// C13: with hello verification on, a server emits nothing but cookie requests
// until a ClientHello echoes the cookie it issued and is otherwise identical to
// the first one; cookie requests are never timer-driven.

type C13Step struct {
	Kind    string `json:"kind"` // first | echo | nocookie | wrong | stale | trunc | extend | alter:<field> | garbage | refirst
	Repeat  int    `json:"repeat"`
	GapMs   int    `json:"gap_ms"`
	FromAlt bool   `json:"from_alt,omitempty"` // sent from another source address
}

type C13Params struct {
	Ver      int       `json:"ver"` // 12 | 13 | 1213 (dual-stack server)
	Store    bool      `json:"store"`
	NoBack   bool      `json:"nobackoff"`
	FlightMs int       `json:"flight_ms"`
	Steps    []C13Step `json:"steps"`
	// UnknownSID: every ClientHello of the run offers a session ID the server's store does not
	// know (an attempt to resume a session the server has forgotten, or never had)
	UnknownSID int `json:"unknown_sid,omitempty"` // 0 none, else length of the offered ID
	// StoreFaultPm: per-mille of the server store's operations that misbehave (error, miss,
	// garbage): a store that reports "not found" as an error is a store all the same
	StoreFaultPm int `json:"store_fault_pm,omitempty"`
}

var c13Alters = []string{"random", "sessionid", "suites", "compression", "ext-add", "ext-drop", "ext-change", "version"}

func c13Counts(tier string) (int, int) {
	// enumerated: first hello followed by every single second-hello kind, both versions
	kinds := len(c13Kinds())
	if tier == "thorough" {
		return 3 * kinds * 4, 100000000
	}

	return 3 * kinds * 4, 10000000
}

func c13Kinds() []string {
	ks := []string{"echo", "nocookie", "wrong", "stale", "trunc", "extend", "garbage", "refirst", "ack-empty", "ack-some", "other-hs"}
	for _, a := range c13Alters {
		ks = append(ks, "alter:"+a)
	}

	return ks
}

func c13Gen(r *rand.Rand, tier string, idx int) any {
	kinds := c13Kinds()
	vers := []int{12, 13, 1213}
	p := &C13Params{}
	if idx < 3*len(kinds)*4 {
		p.Ver = vers[idx%3]
		k := idx / 3
		kind := kinds[k%len(kinds)]
		rep := []int{1, 1, 3, 5}[k/len(kinds)]
		gap := []int{0, 600000, 20, 1500}[k/len(kinds)]
		p.Steps = []C13Step{{Kind: "first", Repeat: 1}, {Kind: kind, Repeat: rep, GapMs: gap}, {Kind: "echo", Repeat: 1, GapMs: 10}}
		p.NoBack = k%2 == 1
		if k/len(kinds) >= 2 && p.Ver == 12 {
			p.Store, p.UnknownSID = true, []int{4, 32}[k%2]
		}

		return p
	}
	p.Ver = vers[r.IntN(3)]
	p.Store = r.IntN(4) == 0
	if r.IntN(3) == 0 {
		p.Store = p.Store || r.IntN(2) == 0
		p.UnknownSID = []int{1, 4, 32}[r.IntN(3)]
		if p.Store {
			p.StoreFaultPm = []int{0, 300, 1000}[r.IntN(3)]
		}
	}
	p.NoBack = r.IntN(3) == 0
	p.FlightMs = []int{0, 50, 300}[r.IntN(3)]
	n := 1 + r.IntN(6)
	p.Steps = append(p.Steps, C13Step{Kind: "first", Repeat: 1 + r.IntN(3)})
	for i := 0; i < n; i++ {
		k := kinds[r.IntN(len(kinds))]
		if r.IntN(5) == 0 {
			k = "first"
		}
		p.Steps = append(p.Steps, C13Step{Kind: k, Repeat: 1 + r.IntN(4), GapMs: []int{0, 1, 50, 999, 1001, 5000, 61000, 600000}[r.IntN(8)], FromAlt: r.IntN(6) == 0})
	}

	return p
}

// chParts locates the variable-length fields of a ClientHello body.
type chParts struct {
	sidOff, cookieOff, suitesOff, compOff, extOff int // offsets of the length prefixes
}

func locateCH(b []byte) (chParts, bool) {
	var p chParts
	o := 2 + 32
	if o >= len(b) {
		return p, false
	}
	p.sidOff = o
	o += 1 + int(b[o])
	if o >= len(b) {
		return p, false
	}
	p.cookieOff = o
	o += 1 + int(b[o])
	if o+2 > len(b) {
		return p, false
	}
	p.suitesOff = o
	o += 2 + int(be(b[o:o+2]))
	if o >= len(b) {
		return p, false
	}
	p.compOff = o
	o += 1 + int(b[o])
	p.extOff = o

	return p, o <= len(b)
}

// withCookie12 returns the ClientHello body with its cookie field replaced.
func withCookie12(body, cookie []byte) []byte {
	p, ok := locateCH(body)
	if !ok {
		return body
	}
	out := append([]byte(nil), body[:p.cookieOff]...)
	out = append(out, byte(len(cookie)))
	out = append(out, cookie...)
	out = append(out, body[p.cookieOff+1+int(body[p.cookieOff]):]...)

	return out
}

// withCookie13 returns the ClientHello body with a cookie extension (44) set to cookie.
func withCookie13(body, cookie []byte) []byte {
	p, ok := locateCH(body)
	if !ok || p.extOff+2 > len(body) {
		return body
	}
	exts := parseExts(body[p.extOff+2:])
	var eb []byte
	for _, e := range exts {
		if e.Type == ExtCookie13 {
			continue
		}
		eb = append(eb, byte(e.Type>>8), byte(e.Type), byte(len(e.Body)>>8), byte(len(e.Body)))
		eb = append(eb, e.Body...)
	}
	if cookie != nil {
		cb := append([]byte{byte(len(cookie) >> 8), byte(len(cookie))}, cookie...)
		eb = append(eb, 0, ExtCookie13, byte(len(cb)>>8), byte(len(cb)))
		eb = append(eb, cb...)
	}
	out := append([]byte(nil), body[:p.extOff]...)
	out = append(out, byte(len(eb)>>8), byte(len(eb)))

	return append(out, eb...)
}

// alterCH changes one field of a ClientHello body (keeping it parseable).
func alterCH(body []byte, field string) []byte {
	p, ok := locateCH(body)
	if !ok {
		return body
	}
	out := append([]byte(nil), body...)
	rebuildExts := func(f func([]Ext) []Ext) []byte {
		if p.extOff+2 > len(body) {
			return out
		}
		exts := f(parseExts(body[p.extOff+2:]))
		var eb []byte
		for _, e := range exts {
			eb = append(eb, byte(e.Type>>8), byte(e.Type), byte(len(e.Body)>>8), byte(len(e.Body)))
			eb = append(eb, e.Body...)
		}
		o := append([]byte(nil), body[:p.extOff]...)
		o = append(o, byte(len(eb)>>8), byte(len(eb)))

		return append(o, eb...)
	}
	dropExt := func(t uint16) []byte {
		return rebuildExts(func(e []Ext) []Ext {
			var keep []Ext
			for _, x := range e {
				if x.Type != t {
					keep = append(keep, x)
				}
			}

			return keep
		})
	}
	switch field {
	// ---- well-formed hellos that leave the receiver without a common value (C08) ----
	case "legacy-10":
		out[0], out[1] = 0xfe, 0xff
	case "no-sv":
		return dropExt(ExtSupportedVers)
	case "legacy-10+no-sv":
		o := dropExt(ExtSupportedVers)
		o[0], o[1] = 0xfe, 0xff

		return o
	case "sv-unknown":
		return rebuildExts(func(e []Ext) []Ext {
			for i, x := range e {
				if x.Type == ExtSupportedVers {
					e[i].Body = []byte{2, 0x7f, 0x7f}
				}
			}

			return e
		})
	case "legacy-10+sv-unknown":
		o := alterCH(body, "sv-unknown")
		o[0], o[1] = 0xfe, 0xff

		return o
	case "suites-unknown":
		n := int(be(body[p.suitesOff : p.suitesOff+2]))
		for i := 0; i+1 < n; i += 2 {
			out[p.suitesOff+2+i], out[p.suitesOff+3+i] = 0x5a, 0x5a
		}
	case "no-groups":
		return dropExt(ExtSupportedGroups)
	case "no-keyshare":
		return dropExt(ExtKeyShare)
	case "no-sigalgs":
		return dropExt(13)
	case "no-exts":
		return rebuildExts(func([]Ext) []Ext { return nil })
	case "random":
		out[2+7] ^= 0x40
	case "version":
		out[1] ^= 0x01
	case "sessionid":
		o := append([]byte(nil), body[:p.sidOff]...)
		o = append(o, 4, 0xde, 0xad, 0xbe, 0xef)

		return append(o, body[p.cookieOff:]...)
	case "suites":
		n := int(be(body[p.suitesOff : p.suitesOff+2]))
		if n >= 4 { // swap the first two suites
			a := p.suitesOff + 2
			out[a], out[a+1], out[a+2], out[a+3] = out[a+2], out[a+3], out[a], out[a+1]
		} else if n >= 2 {
			out[p.suitesOff+3] ^= 0x01
		}
	case "compression":
		o := append([]byte(nil), body[:p.compOff]...)
		o = append(o, 2, 0, 1)

		return append(o, body[p.extOff:]...)
	case "ext-add":
		return rebuildExts(func(e []Ext) []Ext { return append(e, Ext{0xfab0, []byte{1, 2, 3}}) })
	case "ext-drop":
		return rebuildExts(func(e []Ext) []Ext {
			for i, x := range e {
				if x.Type != ExtSupportedVers && x.Type != ExtKeyShare && x.Type != ExtCookie13 && x.Type != ExtSupportedGroups {
					return append(append([]Ext(nil), e[:i]...), e[i+1:]...)
				}
			}

			return e
		})
	case "ext-change":
		return rebuildExts(func(e []Ext) []Ext {
			for i, x := range e {
				if x.Type == ExtEMS || x.Type == ExtRenegotiationInf || x.Type == ExtServerName || x.Type == 13 /* signature_algorithms */ || x.Type == ExtALPN {
					if len(x.Body) > 0 {
						nb := append([]byte(nil), x.Body...)
						nb[len(nb)-1] ^= 0x01
						e[i].Body = nb

						return e
					}
				}
			}
			if len(e) > 0 {
				e = append(e, Ext{0xfab1, nil})
			}

			return e
		})
	}

	return out
}

// wrapCH puts a ClientHello body into one handshake record.
func wrapCH(body []byte, msgSeq int, recSeq uint64) []byte {
	h := make([]byte, 12)
	h[0] = HTClientHello
	putU24(h[1:], len(body))
	putU16(h[4:], msgSeq)
	putU24(h[6:], 0)
	putU24(h[9:], len(body))
	frag := append(h, body...)
	rec := []byte{CTHandshake, 0xfe, 0xfd, 0, 0, byte(recSeq >> 40), byte(recSeq >> 32), byte(recSeq >> 24), byte(recSeq >> 16), byte(recSeq >> 8), byte(recSeq), byte(len(frag) >> 8), byte(len(frag))}

	return append(rec, frag...)
}

func c13Run(rc *RunCtx, params any) {
	p := params.(*C13Params)
	s := rc.S
	rc.R.Class = fmt.Sprintf("v%d", p.Ver)
	rc.R.NonTriv = true
	// specs: hello verification ON at the server
	var cspec, sspec EpSpec
	if p.Ver == 12 {
		cspec, sspec = certPair12(suiteECDSAGCM, "srv-ecdsa")
	} else {
		cspec, sspec = pair13(suite13AES128)
		cspec.Suites, sspec.Suites = nil, nil
		if p.Ver == 1213 {
			cspec.MinVer, sspec.MinVer = 12, 12
		}
	}
	cspec.Curves, sspec.Curves = []uint16{0x001d, 0x0017}, []uint16{0x001d, 0x0017}
	sspec.SkipHelloVerify = false
	sspec.NoBackoff, sspec.FlightMs = p.NoBack, p.FlightMs
	cspec.ALPN, sspec.ALPN = []string{"a", "b"}, []string{"a", "b"}
	env := &Env{Stores: map[string]dtls.SessionStore{}}
	if p.Store {
		env.Stores["sstore"] = NewSimStore(s, "sstore", p.StoreFaultPm)
		sspec.Store = "sstore"
	}
	// a genuine ClientHello to work from: let a real client emit its first flight into the void
	n0 := NewSimNet(s, NetRules{})
	n0.Capture = map[string]bool{"c": true}
	csock := n0.NewConn("c", Addr(1, 5000))
	copts, _, err := cspec.Options(false, env, "c")
	if err != nil {
		rc.Violate("harness", "client options: %v", err)

		return
	}
	donor, err := dtls.ClientWithOptions(csock, Addr(2, 4444), copts...)
	if err != nil {
		rc.Violate("harness", "donor client: %v", err)

		return
	}
	s.Go("donor", func() { _ = donor.Handshake() })
	s.Run(func() bool { return len(n0.Captured) > 0 }, time.Second)
	if len(n0.Captured) == 0 {
		rc.Violate("harness", "donor client emitted nothing")

		return
	}
	col0 := NewHsCollector()
	for _, em := range n0.Captured {
		col0.Feed(em, 0)
	}
	s.Go("donor-close", func() { _ = donor.Close() })
	s.Drain(func() bool { return s.OpsLive() == 0 }, 5*time.Second)
	chs := col0.Of("c", HTClientHello)
	if len(chs) == 0 {
		rc.Violate("harness", "no complete ClientHello captured from the donor (fragmented?)")

		return
	}
	ch1 := chs[0].Body
	if p.UnknownSID > 0 {
		if lp, ok := locateCH(ch1); ok {
			o := append([]byte(nil), ch1[:lp.sidOff]...)
			o = append(o, byte(p.UnknownSID))
			for i := 0; i < p.UnknownSID; i++ {
				o = append(o, byte(0xd0+i))
			}
			ch1 = append(o, ch1[lp.cookieOff:]...)
			s.Probe("first-hello-offers-unknown-session")
		}
	}
	// ---- the server under test ----
	n := NewSimNet(s, NetRules{})
	ssock := n.NewConn("s", Addr(2, 4444))
	_, sopts, err := sspec.Options(true, env, "s")
	if err != nil {
		rc.Violate("harness", "server options: %v", err)

		return
	}
	cAddr, altAddr := Addr(1, 5000), Addr(7, 7777)
	n.NewConn("sink", cAddr)
	n.NewConn("sink2", altAddr)
	server, err := dtls.ServerWithOptions(ssock, cAddr, sopts...)
	if err != nil {
		rc.Violate("harness", "server: %v", err)

		return
	}
	var hsDone bool
	s.Go("s-handshake", func() { _ = server.Handshake(); hsDone = true })
	// ---- the puppet ----
	var lastCookie, prevCookie []byte // cookie of the latest / an earlier cookie request seen from the server
	var lastFirst []byte              // the cookie-less ClientHello the latest cookie request answered
	validDelivered := false
	type sent struct {
		at    time.Duration
		valid bool
		kind  string
		hello bool
	}
	var sends []sent
	recSeq := uint64(0)
	msgSeq := 0
	lastFirstMsgSeq := -1
	scan := func() { // learn cookies from what the server has emitted so far
		for _, em := range n.EmitsOf("s") {
			recs, _ := ParseDatagram(em.Data, 0)
			for _, r := range recs {
				for _, f := range r.Hs {
					var ck []byte
					if f.Type == HTHelloVerifyRequest && len(f.Body) >= 3 {
						ck = f.Body[3 : 3+int(f.Body[2])]
					}
					if f.Type == HTServerHello && f.FLen == f.Length {
						if sh, err := ParseServerHello(f.Body); err == nil && sh.IsHRR {
							if cb, ok := sh.Ext(ExtCookie13); ok && len(cb) >= 2 {
								ck = cb[2:]
							}
						}
					}
					if ck != nil && !bytes.Equal(ck, lastCookie) {
						prevCookie, lastCookie = lastCookie, append([]byte(nil), ck...)
					}
				}
			}
		}
	}
	is13wire := func() bool { return p.Ver != 12 }
	setCookie := func(body, ck []byte) []byte {
		if is13wire() {
			return withCookie13(body, ck)
		}

		return withCookie12(body, ck)
	}
	for _, st := range p.Steps {
		for k := 0; k < max(1, st.Repeat); k++ {
			s.Run(func() bool { return false }, time.Duration(st.GapMs)*time.Millisecond+time.Duration(1+k)*137*time.Microsecond)
			scan()
			var body []byte
			valid := false
			switch {
			case st.Kind == "first" || st.Kind == "nocookie":
				body = setCookie(ch1, nil)
				if !is13wire() {
					body = withCookie12(ch1, nil)
				}
			case st.Kind == "echo":
				body = setCookie(ch1, lastCookie)
				valid = lastCookie != nil && bytes.Equal(lastFirst, setCookie(ch1, nil))
			case st.Kind == "wrong":
				ck := append([]byte(nil), lastCookie...)
				if len(ck) == 0 {
					ck = make([]byte, 20)
				}
				ck[len(ck)/2] ^= 0x10
				body = setCookie(ch1, ck)
			case st.Kind == "stale":
				ck := prevCookie
				if ck == nil {
					ck = bytes.Repeat([]byte{0x5a}, 20)
				}
				body = setCookie(ch1, ck)
			case st.Kind == "trunc":
				ck := lastCookie
				if len(ck) > 1 {
					ck = ck[:len(ck)-1]
				}
				body = setCookie(ch1, ck)
			case st.Kind == "extend":
				body = setCookie(ch1, append(append([]byte(nil), lastCookie...), 0))
			case st.Kind == "refirst":
				// the client's retransmission of its cookie-less ClientHello: same message, same
				// message_seq, fresh record number
				body = lastFirst
				if body == nil {
					body = setCookie(ch1, nil)
				}
			case st.Kind == "ack-empty", st.Kind == "ack-some", st.Kind == "other-hs":
				// not a ClientHello at all (built below)
			case st.Kind == "garbage":
				body = []byte{0xfe, 0xfd, 1, 2, 3}
			case len(st.Kind) > 6 && st.Kind[:6] == "alter:":
				body = setCookie(alterCH(ch1, st.Kind[6:]), lastCookie)
				if bytes.Equal(body, setCookie(ch1, lastCookie)) {
					valid = lastCookie != nil && bytes.Equal(lastFirst, setCookie(ch1, nil)) // the alteration was a no-op for this hello
				}
			}
			from := cAddr
			if st.FromAlt {
				from = altAddr
			}
			useSeq := msgSeq
			if st.Kind == "refirst" && lastFirstMsgSeq >= 0 {
				useSeq = lastFirstMsgSeq
				s.Probe("first-hello-retransmitted")
			} else {
				msgSeq++
			}
			dg := wrapCH(body, useSeq, recSeq)
			isHello := true
			switch st.Kind {
			case "ack-empty": // a cleartext ACK record that acknowledges nothing
				dg, isHello = []byte{CTACK, 0xfe, 0xfd, 0, 0, 0, 0, 0, 0, byte(recSeq >> 8), byte(recSeq), 0, 2, 0, 0}, false
			case "ack-some": // a cleartext ACK record naming two record numbers
				ack := []byte{0, 32, 0, 0, 0, 0, 0, 0, 0, 0, 0, 0, 0, 0, 0, 0, 0, 0, 0, 0, 0, 0, 0, 0, 0, 0, 0, 0, 0, 0, 0, 0, 0, 1}
				dg, isHello = append([]byte{CTACK, 0xfe, 0xfd, 0, 0, 0, 0, 0, 0, byte(recSeq >> 8), byte(recSeq), 0, byte(len(ack))}, ack...), false
			case "other-hs": // a complete handshake message that is not a ClientHello
				h := make([]byte, 12)
				h[0] = []byte{HTClientKeyExchange, HTFinished, HTCertificate, 24}[k%4]
				putU24(h[1:], 4)
				putU16(h[4:], useSeq)
				putU24(h[9:], 4)
				frag := append(h, 1, 2, 3, 4)
				dg, isHello = append([]byte{CTHandshake, 0xfe, 0xfd, 0, 0, 0, 0, 0, 0, byte(recSeq >> 8), byte(recSeq), byte(len(frag) >> 8), byte(len(frag))}, frag...), false
			}
			recSeq++
			if st.Kind == "first" || st.Kind == "nocookie" || (st.Kind == "refirst" && lastFirstMsgSeq < 0) {
				lastFirst = body
				lastFirstMsgSeq = useSeq
			}
			n.InjectNow(from, Addr(2, 4444), dg)
			s.Settle()
			s.Record("puppet", "c", fmt.Sprintf("%s valid=%v", st.Kind, valid), nil)
			sends = append(sends, sent{s.Now(), valid, st.Kind, isHello})
			if valid {
				validDelivered = true
				s.Probe("valid-echo-delivered")
			}
			if !valid && isHello && (st.Kind != "first" && st.Kind != "nocookie" && st.Kind != "garbage" && st.Kind != "refirst") {
				s.Probe("invalid-second-hello:" + st.Kind)
			}
			// ---- oracle, evaluated after every delivery ----
			firstValidAt := time.Duration(-1)
			for _, sd := range sends {
				if sd.valid {
					firstValidAt = sd.at

					break
				}
			}
			cookieReqs := 0
			for _, em := range n.EmitsOf("s") {
				recs, _ := ParseDatagram(em.Data, 0)
				for _, r := range recs {
					what := ""
					switch {
					case r.Unified || (r.Type != CTHandshake && r.Type != CTAlert):
						what = fmt.Sprintf("record type %d epoch %d", r.Type, r.Epoch)
					case r.Type == CTAlert:
					default:
						for _, f := range r.Hs {
							isCookieReq := f.Type == HTHelloVerifyRequest
							if f.Type == HTServerHello {
								if sh, err := ParseServerHello(f.Body); err == nil && sh.IsHRR && f.FLen == f.Length {
									isCookieReq = true
								}
							}
							if isCookieReq {
								cookieReqs++
								coincides := false
								notHello := ""
								for _, sd := range sends {
									if sd.at == em.At && sd.hello {
										coincides = true
									} else if sd.at == em.At {
										notHello = sd.kind
									}
								}
								if !coincides && notHello != "" {
									rc.Violate("cookie-request-without-hello:"+notHello, "server emitted a cookie request at t=%v in response to a datagram that carries no ClientHello (%s)", em.At, notHello)

									return
								}
								if !coincides {
									rc.Violate("cookie-request-on-timer", "server emitted a cookie request at t=%v, no ClientHello was delivered at that instant", em.At)

									return
								}
							} else {
								what = HsName(f.Type)
							}
						}
					}
					if what != "" && (firstValidAt < 0 || em.At < firstValidAt) {
						rc.Violate(fmt.Sprintf("proceeded-without-valid-echo:v%d:%s", p.Ver, st.Kind), "server emitted %s at t=%v before any ClientHello that echoes its cookie and equals the first ClientHello was delivered (last delivered: %s)", what, em.At, st.Kind)

						return
					}
				}
			}
			hellos := 0
			for _, sd := range sends {
				if sd.hello {
					hellos++
				}
			}
			if cookieReqs > hellos {
				rc.Violate("more-cookie-requests-than-hellos", "%d cookie requests for %d delivered ClientHellos", cookieReqs, hellos)

				return
			}
		}
	}
	// positive control: a valid echo must get the large flight
	s.Run(func() bool { return false }, 2*time.Second)
	if validDelivered {
		progressed := false
		for _, em := range n.EmitsOf("s") {
			recs, _ := ParseDatagram(em.Data, 0)
			for _, r := range recs {
				if r.Unified {
					progressed = true
				}
				for _, f := range r.Hs {
					if f.Type == HTServerHello {
						if sh, err := ParseServerHello(f.Body); f.FLen != f.Length || (err == nil && !sh.IsHRR) {
							progressed = true
						}
					}
					if f.Type == HTCertificate || f.Type == HTServerKeyExchange {
						progressed = true
					}
				}
			}
		}
		if progressed {
			s.Probe(fmt.Sprintf("server-proceeded-after-valid-echo:v%d", p.Ver))
		} else {
			s.Probe(fmt.Sprintf("valid-echo-did-not-progress:v%d", p.Ver))
		}
	}
	_ = hsDone
	s.Go("s-close", func() { _ = server.Close() })
	n.CloseAll()
	n0.CloseAll()
	s.Drain(func() bool { return s.OpsLive() == 0 }, 10*time.Second)
}

func init() {
	Register(&Scenario{
		ID:              "C13",
		BudgetIsVerdict: true,
		Counts:          c13Counts,
		Gen:             c13Gen,
		NewParams:       func() any { return &C13Params{} },
		Run:             c13Run,
	})
}
