package verifsim

import (
	"bytes"
	"fmt"
	"math/rand/v2"
	"time"

	dtls "github.com/pion/dtls/v3"
)

// C14: session resumption never keys a connection from mismatched secrets.

type C14Conn struct {
	Rules     NetRules `json:"rules"`
	Poison    string   `json:"poison,omitempty"` // "", c, s: provoke a fatal alert from that endpoint after establishment
	CTag      byte     `json:"ctag"`
	STag      byte     `json:"stag"`
	ServerNew bool     `json:"server_new,omitempty"` // the server side lost its store before this connection
	// TamperCH: every copy of this connection's ClientHello gets an extra (unknown) extension in
	// transit; whether the handshake is abbreviated or full, each side verifies the other's Finished
	// over its own view of the hellos, so nobody may report success
	TamperCH bool `json:"tamper_ch,omitempty"`
}

type C14Params struct {
	Auth    string    `json:"auth"` // psk | cert
	CID     bool      `json:"cid"`
	StorePm int       `json:"store_pm"` // per-mille of store calls that draw a fault
	Conns   []C14Conn `json:"conns"`
	EMS     int       `json:"ems"`
	// Forged: "" or the mode of a forged abbreviated handshake (see c14Forged)
	Forged string `json:"forged,omitempty"`
}

func c14Counts(tier string) (int, int) {
	if tier == "thorough" {
		return 0, 100000000
	}

	return 0, 10000000
}

func c14Gen(r *rand.Rand, tier string, idx int) any {
	p := &C14Params{Auth: []string{"psk", "cert"}[r.IntN(2)], CID: r.IntN(2) == 0, EMS: []int{0, 0, 2}[r.IntN(3)]}
	p.StorePm = []int{0, 0, 100, 300, 600}[r.IntN(5)]
	if r.IntN(8) == 0 {
		p.Forged = []string{"empty-offer", "empty-offer", "echo-zero-secret", "echo-empty-secret", "fresh-id"}[r.IntN(5)]

		return p
	}
	n := 2 + r.IntN(3)
	for i := 0; i < n; i++ {
		c := C14Conn{CTag: byte(16 * (i + 1)), STag: byte(16*(i+1) + 8)}
		if i > 0 && r.IntN(3) == 0 {
			c.Rules = NetRules{DropPm: 100 + r.IntN(250), DupPm: r.IntN(100), HoldPm: r.IntN(100), FaultsUntilIdx: 2 + r.IntN(8), HoldMaxNs: int64(time.Millisecond) * int64(10+r.IntN(1500))}
		}
		if r.IntN(4) == 0 {
			c.Poison = []string{"c", "s"}[r.IntN(2)]
		}
		if i > 0 && r.IntN(6) == 0 {
			c.ServerNew = true
		}
		if i > 0 && r.IntN(5) == 0 {
			c.TamperCH, c.Poison = true, ""
		}
		p.Conns = append(p.Conns, c)
	}

	return p
}

type c14Seen struct {
	randoms map[string]int
}

func c14Run(rc *RunCtx, params any) {
	p := params.(*C14Params)
	s := rc.S
	if p.Forged != "" {
		c14Forged(rc, p)

		return
	}
	rc.R.Class = fmt.Sprintf("%s/cid=%v/store%d", p.Auth, p.CID, p.StorePm)
	rc.R.NonTriv = true
	cstore, sstore := NewSimStore(s, "cstore", 0), NewSimStore(s, "sstore", 0)
	env := &Env{Stores: map[string]dtls.SessionStore{"cstore": cstore, "sstore": sstore}, KeyLogs: map[string]*KeyLog{}}
	seenRandoms := map[string]int{}
	var burnedIDs [][]byte // session IDs on which some endpoint emitted a fatal alert: (who, id)
	var burnedBy []string
	for k, cc := range p.Conns {
		var cspec, sspec EpSpec
		if p.Auth == "psk" {
			cspec, sspec = pskPair(suitePSKGCM)
			cspec.SkipHelloVerify, sspec.SkipHelloVerify = false, k%2 == 0
		} else {
			cspec, sspec = certPair12(suiteECDSAGCM, "srv-ecdsa")
			sspec.SkipHelloVerify = k%2 == 1
		}
		cspec.EMS, sspec.EMS = p.EMS, p.EMS
		cspec.Store, sspec.Store = "cstore", "sstore"
		if p.CID {
			cspec.CIDLen, sspec.CIDLen, cspec.CIDTag, sspec.CIDTag = 4, 4, cc.CTag, cc.STag
		}
		if cc.ServerNew {
			sstore = NewSimStore(s, fmt.Sprintf("sstore%d", k), 0)
			env.Stores["sstore"] = sstore
		}
		if k > 0 {
			cstore.FaultPm, sstore.FaultPm = p.StorePm, p.StorePm
		}
		cname, sname := fmt.Sprintf("c%d", k), fmt.Sprintf("s%d", k)
		n := NewSimNet(s, cc.Rules)
		callsC0, callsS0 := len(cstore.Calls), len(sstore.Calls)
		pair, err := NewPairNamed(s, n, cspec, sspec, env, cname, sname)
		if err != nil {
			rc.Violate("harness", "config: %v", err)

			return
		}
		tampered := 0
		if cc.TamperCH {
			n.Rewrite = func(em *Emission) []byte {
				if em.Ep != cname {
					return em.Data
				}
				out, ch := rewriteUnfragmented(em.Data, HTClientHello, func(b []byte) []byte { return c04Mutate(b, HTClientHello, "ext-append", 7+k) })
				tampered += ch

				return out
			}
		}
		pair.StartHandshakes(4 * time.Minute)
		s.Run(pair.BothDone, 5*time.Minute)
		cstore.FaultPm, sstore.FaultPm = 0, 0
		which := fmt.Sprintf("connection %d", k)
		if tampered > 0 {
			s.Fault("client-hello-rewritten")
			if pair.BothOK() {
				rc.Violate("completed-despite-tampering", "%s: every copy of the ClientHello carried an extension the client never sent, yet both sides report a successful handshake: somebody's Finished did not cover the hellos", which)
				pair.Teardown()

				return
			}
			s.Probe("tampered-hello-rejected")
			pair.Teardown()

			continue
		}
		// ---- wire facts ----
		col := NewHsCollector()
		for _, em := range n.Emits {
			cid := len(sspec.CIDOf())
			if em.Ep == sname {
				cid = len(cspec.CIDOf())
			}
			col.Feed(em, cid)
		}
		chs, shs := col.Of(cname, HTClientHello), col.Of(sname, HTServerHello)
		ckes := col.Of(cname, HTClientKeyExchange)
		var offered, chosen []byte
		if len(chs) > 0 {
			if ch, err := ParseClientHello(chs[len(chs)-1].Body); err == nil {
				offered = ch.SessionID
				for _, m := range chs {
					if h, err := ParseClientHello(m.Body); err == nil {
						key := "c:" + string(h.Random)
						if prev, ok := seenRandoms[key]; ok && prev != k {
							rc.Violate("random-reused", "%s: ClientHello random was already used in connection %d", which, prev)

							return
						}
						seenRandoms[key] = k
					}
				}
			}
		}
		if len(shs) > 0 {
			if sh, err := ParseServerHello(shs[len(shs)-1].Body); err == nil {
				chosen = sh.SessionID
				key := "s:" + string(sh.Random)
				if prev, ok := seenRandoms[key]; ok && prev != k {
					rc.Violate("random-reused", "%s: ServerHello random was already used in connection %d", which, prev)

					return
				}
				seenRandoms[key] = k
			}
		}
		cOK := pair.CHs.Done && pair.CHs.Err == nil
		sOK := pair.SHs.Done && pair.SHs.Err == nil
		abbreviated := len(offered) > 0 && bytes.Equal(offered, chosen) && len(ckes) == 0 && (cOK || sOK)
		// ---- what the stores handed out for this connection ----
		var cSecret, sSecret []byte
		var cGot, sGot bool
		for _, call := range cstore.Calls[callsC0:] {
			if call.Op == "get" && len(call.ID) > 0 {
				cSecret, cGot = call.Secret, true
			}
		}
		for _, call := range sstore.Calls[callsS0:] {
			// a hit is a returned session (non-empty ID), whatever is left of its secret: a store that
			// truncates the secret to nothing on both sides still hands out equal secrets
			if call.Op == "get" && len(call.ID) > 0 && bytes.Equal([]byte(call.Key), offered) {
				sSecret, sGot = call.Secret, true
			}
		}
		// (e) a burned session must not be offered again by the endpoint that burned it, nor resumed by it
		// (a store that hands back a session it was told to delete is the store's fault, not the endpoint's)
		clientStoreLied := false
		for _, call := range cstore.Calls[callsC0:] {
			if call.Op == "get" && call.Act != StOK {
				clientStoreLied = true
			}
		}
		serverStoreLied := false
		for _, call := range sstore.Calls[callsS0:] {
			if call.Op == "get" && call.Act != StOK {
				serverStoreLied = true
			}
		}
		for i, id := range burnedIDs {
			if (burnedBy[i] == "c" && clientStoreLied) || (burnedBy[i] == "s" && serverStoreLied) {
				continue
			}
			if burnedBy[i] == "c" && len(offered) > 0 && bytes.Equal(offered, id) {
				rc.Violate("burned-session-offered", "%s: the client offers session %x on which it had sent a fatal alert", which, id)

				return
			}
			if burnedBy[i] == "s" && abbreviated && bytes.Equal(chosen, id) {
				rc.Violate("burned-session-resumed", "%s: the server resumes session %x on which it had sent a fatal alert", which, id)

				return
			}
		}
		if abbreviated {
			s.Probe("abbreviated-handshake")
			if !cGot || !sGot || !bytes.Equal(hmacKeyCanon(cSecret), hmacKeyCanon(sSecret)) {
				s.Probe("abbreviated-with-differing-store-secrets")
				rc.Violate("resumed-from-mismatched-secrets", "%s: abbreviated handshake reported success (client %v, server %v) although the stores returned different secrets for session %x (client store hit=%v, server store hit=%v)", which, cOK, sOK, offered, cGot, sGot)

				return
			}
		} else if len(offered) > 0 && (cOK || sOK) {
			s.Probe("offered-session-fell-back-to-full")
		}
		if len(offered) > 0 && cGot && sGot && !bytes.Equal(hmacKeyCanon(cSecret), hmacKeyCanon(sSecret)) {
			s.Probe("mismatched-secrets-offered")
		}
		if cOK && sOK {
			cst, ok1 := pair.Client.ConnectionState()
			sst, ok2 := pair.Server.ConnectionState()
			if !ok1 || !ok2 {
				rc.Violate("no-state", "%s: ConnectionState unavailable", which)

				return
			}
			a, _ := cst.ExportKeyingMaterial("EXTRACTOR-verif", nil, 32)
			b, _ := sst.ExportKeyingMaterial("EXTRACTOR-verif", nil, 32)
			if !bytes.Equal(a, b) || len(a) == 0 {
				rc.Violate("keyed-differently", "%s: both sides report success but export different keying material (abbreviated=%v)", which, abbreviated)

				return
			}
			cv, sv := dtls.VerifSessionOf(pair.Client), dtls.VerifSessionOf(pair.Server)
			if p.CID && (!bytes.Equal(cv.LocalCID, cspec.CIDOf()) || !bytes.Equal(sv.LocalCID, sspec.CIDOf()) || !bytes.Equal(cv.RemoteCID, sspec.CIDOf()) || !bytes.Equal(sv.RemoteCID, cspec.CIDOf())) {
				rc.Violate("stale-cid", "%s: connection IDs are not the ones negotiated in this connection's hellos (client %x/%x, server %x/%x)", which, cv.LocalCID, cv.RemoteCID, sv.LocalCID, sv.RemoteCID)

				return
			}
			n.MakeReliable()
			if !DataFlows(rc, pair, 2) {
				return
			}
			// provoke a fatal alert from one endpoint: a record that authenticates under the peer's
			// keys (reference record layer, keys from the key log) and is malformed inside - an alert
			// one byte long. (Cleartext records no longer do: an established session discards them.)
			if dec := NewRecDecoder(pair, n, cspec, sspec); cc.Poison != "" && dec != nil && dec.ref12 != nil {
				before := len(n.Emits)
				victim, vside := cname, "c"
				vcid := cspec.CIDOf()
				if cc.Poison == "s" {
					victim, vside, vcid = sname, "s", sspec.CIDOf()
				}
				if !p.CID {
					vcid = nil
				}
				junk := dec.ref12.Seal(cc.Poison == "s", CTAlert, 1, 5000, vcid, len(vcid) > 0, []byte{2}, 0)
				if cc.Poison == "c" {
					n.InjectNow(pair.SAddr, pair.CAddr, junk)
				} else {
					n.InjectNow(pair.CAddr, pair.SAddr, junk)
				}
				s.Fault("authenticated-malformed-alert")
				s.Run(func() bool { return false }, time.Second)
				alerted := false
				for _, em := range n.Emits[before:] {
					if em.Ep != victim {
						continue
					}
					for _, r := range dec.OpenDatagram(vside, em.Data) {
						if r.Type == CTAlert && len(r.Plain) == 2 && r.Plain[0] == 2 {
							alerted = true
						}
					}
				}
				if alerted && len(chosen) > 0 {
					s.Probe("fatal-alert-provoked:" + cc.Poison)
					burnedIDs = append(burnedIDs, append([]byte(nil), chosen...))
					burnedBy = append(burnedBy, cc.Poison)
					// the store of the endpoint that alerted must have dropped the session
					if cc.Poison == "c" {
						if sess, ok := cstore.Peek(pair.SAddr.String() + "_" + cspec.ServerName); ok && bytes.Equal(sess.ID, chosen) {
							rc.Violate("burned-session-kept", "%s: the client sent a fatal alert on session %x and its store still offers it", which, chosen)

							return
						}
					} else if _, ok := sstore.Peek(string(chosen)); ok {
						rc.Violate("burned-session-kept", "%s: the server sent a fatal alert on session %x and its store still holds it", which, chosen)

						return
					}
				}
			}
		}
		pair.Teardown()
		if len(s.Failures()) > 0 || len(s.Panics) > 0 {
			return
		}
	}
}

func init() {
	Register(&Scenario{
		ID:        "C14",
		Counts:    c14Counts,
		Gen:       c14Gen,
		NewParams: func() any { return &C14Params{} },
		Run:       c14Run,
	})
}

// hmacKeyCanon maps a master secret to its HMAC-equivalence class: the PRF keys
// HMAC with the secret, and HMAC pads short keys with zero bytes, so secrets that
// differ only in trailing zero bytes are the same secret as far as TLS is concerned.
func hmacKeyCanon(k []byte) []byte {
	for len(k) > 0 && k[len(k)-1] == 0 {
		k = k[:len(k)-1]
	}

	return k
}

// ---- a forged abbreviated handshake ----------------------------------------------------------

// c14Forged: the real client (chain verification on, a session store that is empty or holds a
// genuine earlier session) faces a scripted server built on refdtls that holds no credential and
// no stored secret. It answers the ClientHello with ServerHello (session ID per mode),
// ChangeCipherSpec and a Finished computed from a master secret it can know without any
// credential - empty, or 48 zero bytes - as a server resuming a session would. The client may
// fail or keep waiting for the rest of a full handshake; it must never report success.
func c14Forged(rc *RunCtx, p *C14Params) {
	s := rc.S
	rc.R.Class = "forged-abbreviated/" + p.Forged
	rc.R.NonTriv = true
	rc.Note("proto", "dtls12")
	cspec, sspec := certPair12(suiteECDSAGCM, "srv-ecdsa")
	cspec.EMS, sspec.EMS = p.EMS, p.EMS
	cstore := NewSimStore(s, "cstore", 0)
	env := &Env{Stores: map[string]dtls.SessionStore{"cstore": cstore, "sstore": NewSimStore(s, "sstore", 0)}}
	cspec.Store, sspec.Store = "cstore", "sstore"
	if p.Forged != "empty-offer" && p.Forged != "fresh-id" {
		// a genuine first connection, so that the client has a session to offer
		n0 := NewSimNet(s, NetRules{})
		p0, err := NewPairNamed(s, n0, cspec, sspec, env, "c0", "s0")
		if err != nil {
			rc.Violate("harness", "config: %v", err)

			return
		}
		ok := p0.Establish(time.Minute)
		p0.Teardown()
		if !ok {
			rc.Note("prelude-failed", "")

			return
		}
	}
	n := NewSimNet(s, NetRules{})
	pair, err := NewPair(s, n, cspec, sspec, env)
	if err != nil {
		rc.Violate("harness", "config: %v", err)

		return
	}
	defer pair.Teardown()
	col := NewHsCollector()
	answered := false
	n.Rewrite = func(em *Emission) []byte {
		if em.Ep != "c" {
			return nil // the pair's real server stays silent
		}
		if answered {
			return nil
		}
		col.Feed(*em, 0)
		chs := col.Of("c", HTClientHello)
		if len(chs) == 0 {
			return nil
		}
		answered = true
		chm := chs[len(chs)-1]
		ch, perr := ParseClientHello(chm.Body)
		if perr != nil {
			return nil
		}
		sid := []byte{}
		switch p.Forged {
		case "echo-zero-secret", "echo-empty-secret":
			sid = ch.SessionID
			if len(sid) == 0 {
				s.Probe("client-offered-no-session")
			}
		case "fresh-id":
			sid = bytes.Repeat([]byte{0x77}, 32)
		}
		master := []byte{}
		if p.Forged == "echo-zero-secret" {
			master = make([]byte, 48)
		}
		srand := bytes.Repeat([]byte{0xb7}, 32)
		sh := append([]byte{0xfe, 0xfd}, srand...)
		sh = append(sh, byte(len(sid)))
		sh = append(sh, sid...)
		sh = append(sh, byte(suiteECDSAGCM>>8), byte(suiteECDSAGCM&0xff), 0)
		if _, ems := ch.Ext(ExtEMS); ems && p.EMS != 2 {
			sh = append(sh, 0, 4, 0, byte(ExtEMS), 0, 0)
		}
		ref, rerr := NewRef12(suiteECDSAGCM, master, ch.Random, srand)
		if rerr != nil {
			return nil
		}
		shMsg := &HsMsg{Type: HTServerHello, MsgSeq: 0, Body: sh}
		transcript := append(chm.TranscriptForm(), shMsg.TranscriptForm()...)
		fin := dtlsHs(HTFinished, 1, ref.VerifyData12(false, transcript))
		d := plaintextRecord(CTHandshake, 0, dtlsHs(HTServerHello, 0, sh))
		d = append(d, plaintextRecord(CTChangeCipherSpec, 1, []byte{1})...)
		d = append(d, ref.Seal(false, CTHandshake, 1, 0, nil, false, fin, 0)...)
		s.Fault("forged-abbreviated-handshake:" + p.Forged)
		n.Inject(time.Millisecond, pair.SAddr, pair.CAddr, d)

		return nil
	}
	pair.StartHandshakes(20 * time.Second)
	s.Run(func() bool { return pair.CHs.Done }, 30*time.Second)
	if pair.CHs.Done && pair.CHs.Err == nil {
		rc.Violate("forged-abbreviated-accepted:"+p.Forged, "the client reports a successful handshake with a peer that sent only ServerHello, ChangeCipherSpec and a Finished keyed from a master secret anyone can compute (mode %s): no certificate, no key exchange, no shared secret", p.Forged)

		return
	}
	s.Probe("forged-abbreviated-rejected:" + p.Forged)
}

// rewriteUnfragmented returns the datagram with every unfragmented cleartext handshake message of
// the given type replaced by f(body), and the number of messages it changed.
func rewriteUnfragmented(data []byte, typ byte, f func(body []byte) []byte) ([]byte, int) {
	recs, err := ParseDatagram(data, 0)
	if err != nil {
		return data, 0
	}
	var out []byte
	changed := 0
	for _, r := range recs {
		if r.Unified || r.Type != CTHandshake || r.Epoch != 0 || len(r.Hs) == 0 {
			out = append(out, r.Raw...)

			continue
		}
		var body []byte
		for _, fr := range r.Hs {
			fb, total := fr.Body, int(fr.Length)
			if fr.Type == typ && fr.FLen == fr.Length && fr.Off == 0 {
				if nb := f(fr.Body); !bytes.Equal(nb, fr.Body) {
					fb, total = nb, len(nb)
					changed++
				}
			}
			h := make([]byte, 12)
			h[0] = fr.Type
			putU24(h[1:], total)
			putU16(h[4:], int(fr.MsgSeq))
			putU24(h[6:], int(fr.Off))
			putU24(h[9:], len(fb))
			body = append(append(body, h...), fb...)
		}
		hdr := append([]byte(nil), r.Raw[:11]...)
		hdr = append(hdr, byte(len(body)>>8), byte(len(body)))
		out = append(append(out, hdr...), body...)
	}

	return out, changed
}
