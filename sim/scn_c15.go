package verifsim

import (
	"bytes"
	"context"
	"fmt"
	"math/rand/v2"
	"net"
	"time"

	dtls "github.com/pion/dtls/v3"
	"github.com/pion/dtls/v3/internal/net/udp"
	"github.com/pion/dtls/v3/pkg/protocol/extension"
	"github.com/pion/dtls/v3/pkg/protocol/handshake"
)

// C15: connection IDs and peer address migration follow RFC 9146 / RFC 9853.

type C15Ev struct {
	AtMs int    `json:"at_ms"`
	Kind string `json:"kind"` // rebind | unbind | replay | forward | stale | drop-next-s | drop-next-c | delay-next-c | slow-responses | prompt-responses
	Arg  int    `json:"arg,omitempty"`
}

type C15Params struct {
	Mode     string  `json:"mode"` // migrate | listener
	Ver      int     `json:"ver"`
	CCID     int     `json:"ccid"`
	SCID     int     `json:"scid"`
	StripRRC bool    `json:"strip_rrc"`
	Script   []C15Ev `json:"script"`
	Clients  int     `json:"clients,omitempty"`
	// MixCID (listener mode): every second client offers no connection_id extension, so
	// connections with and without a connection ID share one listener and one address space
	MixCID bool `json:"mix_cid,omitempty"`
	ParkPm int  `json:"park_pm,omitempty"`
}

func c15Counts(tier string) (int, int) {
	if tier == "thorough" {
		return 0, 100000000
	}

	return 0, 10000000
}

var c15Kinds = []string{"rebind", "rebind", "unbind", "replay", "forward", "stale", "drop-next-s", "drop-next-c", "delay-next-c", "slow-responses", "prompt-responses"}

func c15Gen(r *rand.Rand, tier string, idx int) any {
	p := &C15Params{Mode: "migrate", Ver: []int{12, 12, 12, 13}[r.IntN(4)]}
	if r.IntN(4) == 0 {
		p.Mode = "listener"
		p.Ver = 12
		p.SCID = []int{1, 4, 8}[r.IntN(3)]
		p.CCID = []int{-1, 0, 4}[r.IntN(3)]
		p.Clients = 2 + r.IntN(2)
		if r.IntN(3) == 0 {
			p.MixCID, p.CCID = true, []int{0, 4}[r.IntN(2)]
		}
		n := 1 + r.IntN(5)
		for i := 0; i < n; i++ {
			p.Script = append(p.Script, C15Ev{AtMs: 20 + r.IntN(400), Kind: []string{"swap", "rebind", "borrow"}[r.IntN(3)], Arg: r.IntN(6)})
		}

		return p
	}
	lens := []int{-1, 0, 1, 4, 8, 32, 200}
	p.CCID, p.SCID = lens[r.IntN(7)], lens[r.IntN(7)]
	if r.IntN(2) == 0 { // bias towards the interesting case
		p.SCID = []int{1, 4, 8}[r.IntN(3)]
		if p.CCID < 0 {
			p.CCID = 0
		}
	}
	p.StripRRC = r.IntN(5) == 0
	p.ParkPm = []int{0, 0, 0, 300}[r.IntN(4)]
	n := 1 + r.IntN(6)
	t := 0
	for i := 0; i < n; i++ {
		t += 10 + r.IntN(700)
		ev := C15Ev{AtMs: t, Kind: c15Kinds[r.IntN(len(c15Kinds))], Arg: 1 + r.IntN(2)}
		p.Script = append(p.Script, ev)
		if ev.Kind == "slow-responses" && r.IntN(3) != 0 {
			// the interesting continuation: the path changes while every answer to a challenge is late
			t += 1 + r.IntN(300)
			p.Script = append(p.Script, C15Ev{AtMs: t, Kind: "rebind", Arg: 1 + r.IntN(2)})
			t += 1500 + r.IntN(2500)
			p.Script = append(p.Script, C15Ev{AtMs: t, Kind: []string{"prompt-responses", "unbind", "replay"}[r.IntN(3)], Arg: 1})
		}
	}

	return p
}

const ctRRC = 27 // return_routability_check content type (RFC 9853)

type c15Chal struct {
	seq    uint64
	at     time.Duration
	to     string
	cookie string
}

type c15Resp struct {
	seq    uint64
	at     time.Duration
	from   string
	cookie string
}

func c15Run(rc *RunCtx, params any) {
	p := params.(*C15Params)
	if p.Mode == "listener" {
		c15RunListener(rc, p)

		return
	}
	s := rc.S
	rc.R.Class = fmt.Sprintf("migrate/v%d/ccid%d/scid%d/strip=%v", p.Ver, p.CCID, p.SCID, p.StripRRC)
	rc.R.NonTriv = true
	var cspec, sspec EpSpec
	if p.Ver == 13 {
		cspec, sspec = pair13(suite13AES128)
	} else {
		cspec, sspec = pskPair(suitePSKGCM)
	}
	cspec.CIDLen, sspec.CIDLen, cspec.CIDTag, sspec.CIDTag = p.CCID, p.SCID, 0x21, 0x61
	rc.Note("proto", protoTag(cspec, sspec))
	env := &Env{Extra: map[string][]dtls.Option{}, KeyLogs: map[string]*KeyLog{}}
	if p.StripRRC {
		env.Extra["c"] = append(env.Extra["c"], dtls.WithClientHelloMessageHook(func(ch handshake.MessageClientHello) handshake.Message {
			var keep []extension.Value
			for _, e := range ch.Extensions {
				if _, isRRC := e.(*extension.ReturnRoutabilityCheck); !isRRC {
					keep = append(keep, e)
				}
			}
			ch.Extensions = keep

			return &ch
		}))
	}
	n := NewSimNet(s, NetRules{})
	pair, err := NewPair(s, n, cspec, sspec, env)
	if err != nil {
		rc.Violate("harness", "config: %v", err)

		return
	}
	defer pair.Teardown()
	if !pair.Establish(time.Minute) {
		rc.Note("not-established", fmt.Sprintf("%v %v", pair.CHs.Err, pair.SHs.Err))

		return
	}
	s.Run(func() bool { return false }, 3*time.Second)
	dec := NewRecDecoder(pair, n, cspec, sspec)
	if dec == nil {
		rc.Violate("harness", "no reference keys for the established session")

		return
	}
	liveDec := dec.Fork() // decodes client datagrams in emission order (to recognise path responses in transit)
	orig := pair.CAddr
	alts := []net.Addr{nil, Addr(11, 6001), Addr(12, 6002)}
	attacker := Addr(66, 666)
	n.NewConn("z", attacker) // sink for whatever is sent to the attacker
	for _, a := range alts[1:] {
		n.Alias(a, pair.CSock)
	}
	cidNegotiatedToServer := p.SCID > 0 && p.CCID >= 0
	rrc := !p.StripRRC && p.CCID >= 0 && p.SCID >= 0
	// ---- fault machinery ----
	curSrc := 0
	divert := "" // forward | stale: what to do with the next client datagram
	dropNext := map[string]bool{}
	delayNextC := false
	slowResponses := false
	var held []byte
	heldCountdown := 0
	var lastDeliveredC []byte
	n.ReAddr = func(em *Emission) net.Addr {
		if em.Ep == "c" && curSrc > 0 {
			return alts[curSrc]
		}

		return nil
	}
	n.Rewrite = func(em *Emission) []byte {
		if dropNext[em.Ep] {
			dropNext[em.Ep] = false
			s.Fault("drop-next-" + em.Ep)

			return nil
		}
		if em.Ep != "c" {
			return em.Data
		}
		isResponse := false
		for _, r := range liveDec.OpenDatagram("c", em.Data) {
			if r.Type == ctRRC && len(r.Plain) >= 1 && r.Plain[0] == 1 {
				isResponse = true
			}
		}
		if isResponse {
			s.Probe("path-response-on-the-wire")
		}
		if isResponse && slowResponses {
			// the answer to the challenge arrives after the validation period; everything else from
			// that address keeps flowing
			late := s.Ch.Draw("late", func(r *rand.Rand) Dec { return Dec{A: r.Int64N(1500)} })
			src := net.Addr(orig)
			if curSrc > 0 {
				src = alts[curSrc]
			}
			s.Fault("path-response-late")
			n.Inject(time.Second+50*time.Millisecond+time.Duration(late.A)*time.Millisecond, src, pair.SAddr, append([]byte(nil), em.Data...))

			return nil
		}
		if heldCountdown > 0 {
			heldCountdown--
			if heldCountdown == 0 && held != nil {
				h := held
				held = nil
				s.Fault("stale-record-from-attacker")
				n.Inject(time.Millisecond, attacker, pair.SAddr, h)
			}
		}
		switch {
		case divert == "forward":
			divert = ""
			s.Fault("fresh-record-forwarded-by-attacker")
			n.Inject(time.Millisecond, attacker, pair.SAddr, append([]byte(nil), em.Data...))

			return nil
		case divert == "stale":
			divert = ""
			held = append([]byte(nil), em.Data...)
			heldCountdown = 2

			return nil
		case delayNextC:
			delayNextC = false
			s.Fault("client-datagram-delayed-1.5s")
			src := net.Addr(orig)
			if curSrc > 0 {
				src = alts[curSrc]
			}
			n.Inject(1500*time.Millisecond, src, pair.SAddr, append([]byte(nil), em.Data...))

			return nil
		}
		lastDeliveredC = em.Data

		return em.Data
	}
	for _, ev := range p.Script {
		ev := ev
		s.After(time.Duration(ev.AtMs)*time.Millisecond+71*time.Nanosecond, func() {
			switch ev.Kind {
			case "rebind":
				curSrc = 1 + (ev.Arg-1)%2
				s.Fault("nat-rebind")
			case "unbind":
				curSrc = 0
			case "replay":
				if lastDeliveredC != nil {
					s.Fault("replay-from-attacker")
					n.InjectNow(attacker, pair.SAddr, append([]byte(nil), lastDeliveredC...))
				}
			case "forward", "stale":
				divert = ev.Kind
			case "drop-next-s":
				dropNext["s"] = true
			case "drop-next-c":
				dropNext["c"] = true
			case "delay-next-c":
				delayNextC = true
			case "slow-responses":
				slowResponses = true
			case "prompt-responses":
				slowResponses = false
			}
			s.Record("script", "net", ev.Kind, nil)
		})
	}
	// ---- workload ----
	s.Policy = SchedPolicy{ParkPermille: p.ParkPm, Active: p.ParkPm > 0}
	rdC, rdS := pair.StartReader("c"), pair.StartReader("s")
	last := 0
	for _, ev := range p.Script {
		if ev.AtMs > last {
			last = ev.AtMs
		}
	}
	until := time.Duration(last)*time.Millisecond + 4*time.Second
	stop := false
	written := map[string]map[string]bool{"c": {}, "s": {}}
	for _, ep := range []string{"c", "s"} {
		ep := ep
		s.Go(ep+"-ticker-writer", func() {
			conn := pair.ConnOf(ep)
			for k := 0; !stop; k++ {
				pl := Payload(ep, 3, k, 40)
				written[ep][string(pl)] = true
				if _, err := conn.Write(pl); err != nil {
					return
				}
				s.Sleep(time.Duration(17+6*len(ep)) * time.Millisecond)
			}
		})
	}
	// ---- observation: the address the server believes in, at every quiescent point ----
	type addrAt struct {
		seq  uint64
		addr string
	}
	timeline := []addrAt{{s.EventSeq(), pair.Server.RemoteAddr().String()}}
	dataFrom := len(n.Emits)
	delivFrom := len(n.Deliv)
	s.OnStep = func(int64) {
		a := pair.Server.RemoteAddr().String()
		if a != timeline[len(timeline)-1].addr {
			timeline = append(timeline, addrAt{s.EventSeq(), a})
		}
	}
	s.Run(func() bool { return false }, until)
	stop = true
	s.OnStep = nil
	s.Policy.Active = false
	s.Run(func() bool { return false }, 200*time.Millisecond)
	// ---- oracle ----
	activeAt := func(seq uint64) (before, after string) {
		before = timeline[0].addr
		after = before
		for i, t := range timeline {
			if t.seq <= seq {
				before = t.addr
				after = t.addr
				if i+1 < len(timeline) {
					after = timeline[i+1].addr
				}
			}
		}

		return before, after
	}
	genuineFrom := map[string][]uint64{} // address -> event seqs of genuine client datagrams delivered from it
	bytesFrom := func(addr string, upTo uint64) int {
		t := 0
		for _, d := range n.Deliv[delivFrom:] {
			if d.Ep == "s" && d.From == addr && d.Seq <= upTo {
				t += len(d.Data)
			}
		}

		return t
	}
	for _, d := range n.Deliv[delivFrom:] {
		if d.Ep == "s" && (!d.Injected || d.From != attacker.String()) {
			genuineFrom[d.From] = append(genuineFrom[d.From], d.Seq)
		}
	}
	// ---- decoded view of path validation (refdtls opens every record) ----
	var chals []c15Chal
	var resps []c15Resp
	emDec, dlDec := dec.Fork(), dec.Fork()
	for _, em := range n.Emits[dataFrom:] {
		if em.Ep != "s" {
			continue
		}
		for _, r := range emDec.OpenDatagram("s", em.Data) {
			if r.Type == ctRRC && len(r.Plain) == 9 && r.Plain[0] == 0 {
				chals = append(chals, c15Chal{seq: em.Seq, at: em.At, to: em.To, cookie: string(r.Plain[1:])})
			}
		}
	}
	// deliveries to the server in processing order: which carried a record newer than everything before
	newestFrom := map[string][]uint64{}
	haveMax := false
	var maxE uint16
	var maxS uint64
	for _, d := range n.Deliv {
		if d.Ep != "s" {
			continue
		}
		for _, r := range dlDec.OpenDatagram("c", d.Data) {
			if !haveMax || r.Epoch > maxE || (r.Epoch == maxE && r.Seq > maxS) {
				haveMax, maxE, maxS = true, r.Epoch, r.Seq
				if d.Seq > 0 {
					newestFrom[d.From] = append(newestFrom[d.From], d.Seq)
				}
			}
			if r.Type == ctRRC && len(r.Plain) == 9 && r.Plain[0] == 1 {
				resps = append(resps, c15Resp{seq: d.Seq, at: d.At, from: d.From, cookie: string(r.Plain[1:])})
			}
		}
	}
	if len(chals) > 0 {
		s.Probe("path-challenges-decoded")
	}
	challengesTo := map[string]int{}
	for _, c := range chals {
		// a challenge goes out only because an authentic record newer than all before arrived from that address
		challengesTo[c.to]++
		k := 0
		for _, sq := range newestFrom[c.to] {
			if sq < c.seq {
				k++
			}
		}
		if k < challengesTo[c.to] {
			rc.Violate("challenge-without-newest-record", "server sent path_challenge number %d to %s after only %d authentic newest records had arrived from that address (a replayed or overtaken record must not start path validation)", challengesTo[c.to], c.to, k)

			return
		}
	}
	sentTo := map[string]int{}
	for _, em := range n.Emits[dataFrom:] {
		if em.Ep != "s" {
			continue
		}
		// the peer's CID on every protected record the server sends
		if p.CCID > 0 && p.SCID >= 0 { // connection IDs are only in use when both sides offered the extension
			recs, _ := ParseDatagram(em.Data, p.CCID)
			for _, r := range recs {
				if (r.Unified || r.Type == CTCID) && !bytes.Equal(r.CID, cspec.CIDOf()) {
					rc.Violate("wrong-cid-on-wire", "server emitted a protected record with CID %x, the client's is %x", r.CID, cspec.CIDOf())

					return
				}
			}
		}
		before, after := activeAt(em.Seq)
		if em.To == before || em.To == after {
			continue
		}
		sentTo[em.To] += len(em.Data)
		recv := bytesFrom(em.To, em.Seq)
		if sentTo[em.To] > 3*recv {
			rc.Violate("amplification", "server sent %d bytes to unvalidated address %s after receiving %d bytes from it (limit 3x); client CID %d bytes, server CID %d bytes", sentTo[em.To], em.To, recv, max(p.CCID, 0), max(p.SCID, 0))

			return
		}
		s.Probe("challenge-to-candidate-address")
	}
	for i := 1; i < len(timeline); i++ {
		x, t := timeline[i].addr, timeline[i].seq
		s.Probe("peer-address-changed")
		if !rrc || !cidNegotiatedToServer {
			rc.Violate("migrated-without-negotiation", "server's peer address changed to %s although return-routability checking / a server-side connection ID was not negotiated (strip_rrc=%v, server CID length %d)", x, p.StripRRC, p.SCID)

			return
		}
		if x == attacker.String() {
			rc.Violate("migrated-to-attacker", "server's peer address changed to the attacker's address, which never answered a challenge")

			return
		}
		// the newest challenge sent to x before some path_response that arrived from x carries the same
		// cookie as that response, and the response arrived within the validation period
		okPath := false
		for _, r := range resps {
			if r.from != x || r.seq > t || r.seq < timeline[i-1].seq {
				continue
			}
			var last *c15Chal
			for k := range chals {
				if chals[k].to == x && chals[k].seq < r.seq {
					last = &chals[k]
				}
			}
			if last != nil && last.cookie == r.cookie && r.at-last.at <= time.Second {
				okPath = true
			}
		}
		if !okPath {
			rc.Violate("migrated-without-validation", "server's peer address changed to %s at event %d although no path_response from that address answered the newest path_challenge sent to it within one second (%d challenges, %d responses decoded)", x, t, len(chals), len(resps))

			return
		}
		s.Probe("migration-validated")
	}
	// payload integrity on both sides
	for _, g := range rdS.Got {
		if !written["c"][string(g)] {
			rc.Violate("read-not-written", "server read a payload the client never wrote")

			return
		}
	}
	for _, g := range rdC.Got {
		if !written["s"][string(g)] {
			rc.Violate("read-not-written", "client read a payload the server never wrote")

			return
		}
	}
	if len(timeline) == 1 {
		s.Probe("address-never-changed")
	}
}

// ---- listener routing ------------------------------------------------------------------

func c15RunListener(rc *RunCtx, p *C15Params) {
	s := rc.S
	rc.R.Class = fmt.Sprintf("listener/clients%d/scid%d/ccid%d/mix=%v", p.Clients, p.SCID, p.CCID, p.MixCID)
	rc.R.NonTriv = true
	rc.Note("proto", "dtls12")
	n := NewSimNet(s, NetRules{})
	lAddr := Addr(2, 4444)
	lsock := n.NewConn("l", lAddr)
	udp.VerifSocket = func(string, string) net.PacketConn { return lsock }
	defer func() { udp.VerifSocket = nil }()
	cidCounter := byte(0)
	_, sspec := pskPair(suitePSKGCM)
	sspec.SkipHelloVerify = true
	env := &Env{}
	_, sopts, err := sspec.Options(true, env, "l")
	if err != nil {
		rc.Violate("harness", "%v", err)

		return
	}
	sopts = append(sopts, dtls.WithConnectionIDGenerator(func() []byte {
		cidCounter++
		b := make([]byte, p.SCID)
		for i := range b {
			b[i] = cidCounter*16 + byte(i)
		}

		return b
	}))
	ln, err := dtls.ListenWithOptions("udp", lAddr, sopts...)
	if err != nil {
		rc.Violate("harness", "listen: %v", err)

		return
	}
	type srvSide struct {
		conn  *dtls.Conn
		got   [][]byte
		done  bool
		peer0 string // the address the connection was accepted from
	}
	var servers []*srvSide
	s.Go("acceptor", func() {
		for {
			c, aerr := ln.Accept()
			if aerr != nil {
				return
			}
			dc, ok := c.(*dtls.Conn)
			if !ok {
				return
			}
			ss := &srvSide{conn: dc, peer0: dc.RemoteAddr().String()}
			servers = append(servers, ss)
			s.Go("srv-reader", func() {
				buf := make([]byte, 4096)
				for {
					k, rerr := dc.Read(buf)
					if rerr != nil {
						ss.done = true

						return
					}
					ss.got = append(ss.got, append([]byte(nil), buf[:k]...))
				}
			})
		}
	})
	type cliSide struct {
		name string
		addr net.Addr
		sock *SimPacketConn
		conn *dtls.Conn
		hs   bool
		err  error
		src  net.Addr // current apparent source address
	}
	var clients []*cliSide
	hasCID, addrOwner := map[string]bool{}, map[string]string{}
	for i := 0; i < p.Clients; i++ {
		cspec, _ := pskPair(suitePSKGCM)
		cspec.CIDLen, cspec.CIDTag = p.CCID, byte(0x30+i)
		if p.MixCID && i%2 == 1 {
			cspec.CIDLen = -1
		}
		hasCID[fmt.Sprintf("c%d", i)] = cspec.CIDLen >= 0
		addrOwner[Addr(byte(20+i), 7000+i).String()] = fmt.Sprintf("c%d", i)
		name := fmt.Sprintf("c%d", i)
		addr := Addr(byte(20+i), 7000+i)
		sock := n.NewConn(name, addr)
		copts, _, oerr := cspec.Options(false, env, name)
		if oerr != nil {
			rc.Violate("harness", "%v", oerr)

			return
		}
		conn, cerr := dtls.ClientWithOptions(sock, lAddr, copts...)
		if cerr != nil {
			rc.Violate("harness", "%v", cerr)

			return
		}
		cl := &cliSide{name: name, addr: addr, sock: sock, conn: conn, src: addr}
		clients = append(clients, cl)
		i := i
		s.After(time.Duration(1+i)*731*time.Microsecond, func() {
			s.Go(name+"-handshake", func() { cl.err = cl.conn.Handshake(); cl.hs = true })
		})
	}
	allUp := func() bool {
		for _, c := range clients {
			if !c.hs {
				return false
			}
		}

		return len(servers) == len(clients)
	}
	teardown := func() {
		s.Policy.Active = false
		for _, c := range clients {
			c := c
			s.Go("close", func() { _ = c.conn.Close() })
		}
		for _, sv := range servers {
			sv := sv
			s.Go("close", func() { _ = sv.conn.Close() })
		}
		s.Go("close-listener", func() { _ = ln.Close() })
		s.Drain(func() bool { return s.OpsLive() == 0 }, 10*time.Second)
		n.CloseAll()
		s.Drain(func() bool { return s.OpsLive() == 0 }, 10*time.Second)
	}
	defer teardown()
	if !s.Run(allUp, time.Minute) {
		rc.Note("not-all-established", "")

		return
	}
	for _, c := range clients {
		if c.err != nil {
			rc.Note("client-failed", c.err.Error())

			return
		}
	}
	s.Run(func() bool { return false }, 2*time.Second)
	// source-address games: the apparent source of each client's datagrams
	extra := []net.Addr{Addr(40, 9000), Addr(41, 9001), Addr(42, 9002)}
	for _, a := range extra {
		n.NewConn("sink-"+a.String(), a)
	}
	n.ReAddr = func(em *Emission) net.Addr {
		for _, c := range clients {
			if c.name == em.Ep {
				return c.src
			}
		}

		return nil
	}
	for _, ev := range p.Script {
		ev := ev
		s.After(time.Duration(ev.AtMs)*time.Millisecond+31*time.Nanosecond, func() {
			a, b := clients[ev.Arg%len(clients)], clients[(ev.Arg+1)%len(clients)]
			switch ev.Kind {
			case "swap": // two clients behind one NAT get each other's mapping
				a.src, b.src = b.src, a.src
				s.Fault("clients-swap-addresses")
			case "rebind":
				a.src = extra[ev.Arg%len(extra)]
				s.Fault("client-rebinds")
			case "borrow": // one client's datagrams show up from another client's (still registered) address
				a.src = b.addr
				s.Fault("client-appears-from-other-clients-address")
			}
		})
	}
	wrote := map[string]map[string]bool{}
	stop := false
	for _, c := range clients {
		c := c
		wrote[c.name] = map[string]bool{}
		s.Go(c.name+"-writer", func() {
			for k := 0; !stop; k++ {
				pl := Payload(c.name, 4, k, 32)
				wrote[c.name][string(pl)] = true
				if _, werr := c.conn.Write(pl); werr != nil {
					return
				}
				s.Sleep(23 * time.Millisecond)
			}
		})
	}
	last := 0
	for _, ev := range p.Script {
		last = max(last, ev.AtMs)
	}
	s.Run(func() bool { return false }, time.Duration(last)*time.Millisecond+1500*time.Millisecond)
	stop = true
	s.Run(func() bool { return false }, 300*time.Millisecond)
	// each accepted connection only ever reads one client's payloads, and keeps receiving them
	for i, sv := range servers {
		owner := ""
		for _, g := range sv.got {
			who := ""
			for name, w := range wrote {
				if w[string(g)] {
					who = name
				}
			}
			if who == "" {
				rc.Violate("read-not-written", "accepted connection %d read a payload nobody wrote", i)

				return
			}
			if owner == "" {
				owner = who
			}
			if who != owner {
				rc.Violate("cross-delivery", "accepted connection %d read payloads of both %s and %s", i, owner, who)

				return
			}
		}
		if owner == "" {
			owner = addrOwner[sv.peer0]
			if owner != "" && hasCID[owner] && len(wrote[owner]) > 0 {
				rc.Violate("starved-connection", "accepted connection %d (client %s) never read anything although its client kept writing (routing by connection ID lost its datagrams)", i, owner)

				return
			}
		}
		if !hasCID[owner] {
			continue // the client offered no connection_id extension: nothing to route by
		}
		if owner == "" {
			rc.Violate("starved-connection", "accepted connection %d never read anything although its client kept writing (routing by connection ID lost its datagrams)", i)

			return
		}
		// the tail of the client's stream must have arrived: routing follows the CID whatever the source address
		lastFew := 0
		for _, g := range sv.got[max(0, len(sv.got)-5):] {
			if wrote[owner][string(g)] {
				lastFew++
			}
		}
		total := len(wrote[owner])
		if len(sv.got) < total*6/10 {
			rc.Violate("routing-lost-datagrams", "accepted connection of %s read %d of %d payloads on a loss-free link while source addresses changed (server CID %d bytes)", owner, len(sv.got), total, p.SCID)

			return
		}
	}
	s.Probe("listener-routing-checked")
	// a later connection that reuses an address: the first client and the connection accepted for
	// it are closed; a new client bound to the first client's original address must be accepted as
	// a new connection (every routing entry of the old one is gone) and be served
	old := clients[0]
	oldDone := 0
	s.Go("close-old-client", func() { _ = old.conn.Close(); oldDone++ })
	for _, sv := range servers {
		if sv.peer0 == old.addr.String() {
			sv := sv
			oldDone--
			s.Go("close-old-accepted", func() { _ = sv.conn.Close(); oldDone++ })
		}
	}
	s.Run(func() bool { return oldDone == 1 }, 10*time.Second)
	s.Run(func() bool { return false }, time.Second)
	before := len(servers)
	cspec, _ := pskPair(suitePSKGCM)
	cspec.CIDLen, cspec.CIDTag = p.CCID, 0x77
	sock := n.Rebind("r0", old.addr)
	copts, _, oerr := cspec.Options(false, env, "r0")
	if oerr != nil {
		rc.Violate("harness", "%v", oerr)

		return
	}
	nc, cerr := dtls.ClientWithOptions(sock, lAddr, copts...)
	if cerr != nil {
		rc.Violate("harness", "%v", cerr)

		return
	}
	re := &cliSide{name: "r0", addr: old.addr, sock: sock, conn: nc, src: old.addr}
	clients = append(clients, re)
	s.Go("r0-handshake", func() {
		ctx, cancel := context.WithTimeout(context.Background(), s.Uniq(30*time.Second))
		defer cancel()
		re.err = nc.HandshakeContext(ctx)
		re.hs = true
	})
	s.Run(func() bool { return re.hs }, 40*time.Second)
	if !re.hs || re.err != nil {
		rc.Violate("address-reuse-misrouted", "after client %s (original address %s) and the connection accepted for it were closed, a new client bound to that address could not handshake with the listener within 30 s: done=%v err=%v (connections accepted since: %d)", old.name, old.addr, re.hs, re.err, len(servers)-before)

		return
	}
	pl := Payload("r0", 5, 0, 24)
	s.Go("r0-write", func() { _, _ = nc.Write(pl) })
	arrived := func() bool {
		for _, sv := range servers[before:] {
			for _, g := range sv.got {
				if bytes.Equal(g, pl) {
					return true
				}
			}
		}

		return false
	}
	if !s.Run(arrived, 10*time.Second) && !arrived() {
		rc.Violate("address-reuse-misrouted", "the new client at %s completed its handshake but its payload reached no connection accepted after the old one was closed", old.addr)

		return
	}
	s.Probe("address-reused-by-a-later-connection")
}

func init() {
	Register(&Scenario{
		ID:        "C15",
		Counts:    c15Counts,
		Gen:       c15Gen,
		NewParams: func() any { return &C15Params{} },
		Run:       c15Run,
	})
}
