package verifsim

import (
	"context"
	"errors"
	"fmt"
	"io"
	"math/rand/v2"
	"strings"
	"time"

	dtls "github.com/pion/dtls/v3"
)

// C16: Close, alerts and deadlines are safe at any moment, on any goroutine.

type C16Params struct {
	Variant string `json:"variant,omitempty"` // handshake-phase runs
	Cfg     string `json:"cfg,omitempty"`     // data-phase runs
	Step    int    `json:"step"`              // controller step (since phase start) at which the action fires
	Action  string `json:"action"`            // close | rdeadline | wdeadline | alert
	Who     string `json:"who"`               // c | s | both
	Closers int    `json:"closers"`
	Pre     string `json:"pre,omitempty"` // deadline state set right before Close: wpast | rpast | bothpast
	Stall   bool   `json:"stall,omitempty"`
	// PeerWriteErr: from the moment the action fires, every write of the *other* endpoint's
	// transport fails (ENOBUFS-like), so it cannot send its reply to a close_notify
	PeerWriteErr bool     `json:"peer_write_err,omitempty"`
	ParkPm       int      `json:"park_pm,omitempty"`
	Rules        NetRules `json:"rules"`
	DeadlineMs   int      `json:"deadline_ms,omitempty"`
	Enum         string   `json:"enum,omitempty"`
	// KeyUpdate (DTLS 1.3 data phase, one target): the target calls UpdateKeys while everything its
	// peer sends is lost, so that the call is blocked waiting for an ACK when the action fires
	KeyUpdate bool `json:"key_update,omitempty"`
	// KeyUpdateLive: the link stays up, so the ACK of the KeyUpdate is being processed (by the
	// handshake goroutine, under the connection's locks) around the moment the action fires
	KeyUpdateLive bool `json:"key_update_live,omitempty"`
}

// Op is one tracked API call.
type Op struct {
	Name   string
	Ep     string
	Done   bool
	Err    error
	N      int
	CallAt time.Duration
	RetAt  time.Duration
	Data   []byte
}

type opSet struct {
	s   *Sim
	ops []*Op
}

func (o *opSet) start(name, ep string, f func() (int, error)) *Op {
	op := &Op{Name: name, Ep: ep, CallAt: o.s.Now()}
	o.ops = append(o.ops, op)
	o.s.Go(ep+"-"+name, func() {
		o.s.Record("op-call", ep, name, nil)
		n, err := f()
		op.N, op.Err, op.RetAt = n, err, o.s.Now()
		o.s.Record("op-ret", ep, fmt.Sprintf("%s n=%d err=%v", name, n, err), nil)
		op.Done = true
	})

	return op
}

func (o *opSet) pending(ep string) []*Op {
	var out []*Op
	for _, op := range o.ops {
		if !op.Done && (ep == "" || op.Ep == ep) {
			out = append(out, op)
		}
	}

	return out
}

const c16StepsEnum = 140

func c16Counts(tier string) (int, int) {
	nv := len(Variants())
	enum := nv * 3 * c16StepsEnum // handshake phase: variant x who x step
	nd := len(DataCfgs())
	enum += nd * 3 * 60 * 2 // data phase: cfg x who x step x stall
	if tier == "thorough" {
		return enum, 100000000
	}

	return enum, 10000000
}

var c16Who = []string{"c", "s", "both"}

func c16Gen(r *rand.Rand, tier string, idx int) any {
	vs := Variants()
	ds := DataCfgs()
	p := &C16Params{Action: "close", Closers: 1}
	hsSpace := len(vs) * 3 * c16StepsEnum
	dataSpace := len(ds) * 3 * 60 * 2
	switch {
	case idx < hsSpace:
		p.Variant = vs[idx%len(vs)].Name
		k := idx / len(vs)
		p.Who = c16Who[k%3]
		p.Step = k / 3
		p.Enum = "handshake phase: Close at every controller step"
	case idx < hsSpace+dataSpace:
		k := idx - hsSpace
		p.Cfg = ds[k%len(ds)].Name
		k /= len(ds)
		p.Who = c16Who[k%3]
		k /= 3
		p.Step = k % 60
		p.Stall = k/60 == 1
		p.Enum = "data phase: Close at every controller step, with and without a Write blocked in the transport"
	default:
		if r.IntN(2) == 0 {
			p.Variant = vs[r.IntN(len(vs))].Name
			p.Step = r.IntN(200)
		} else {
			p.Cfg = ds[r.IntN(len(ds))].Name
			p.Step = r.IntN(80)
			p.Stall = r.IntN(3) == 0
			p.PeerWriteErr = r.IntN(4) == 0
		}
		p.Who = c16Who[r.IntN(3)]
		p.Closers = 1 + r.IntN(4)
		p.ParkPm = []int{0, 0, 200, 500}[r.IntN(4)]
		switch r.IntN(8) {
		case 0:
			p.Action = "rdeadline"
		case 1:
			p.Action = "wdeadline"
		case 2:
			p.Action = "alert"
		}
		p.Pre = []string{"", "", "", "wpast", "rpast", "bothpast"}[r.IntN(6)]
		p.DeadlineMs = []int{0, 1, 50, 1500}[r.IntN(4)]
		if c, okc := dataCfgByName(p.Cfg); okc && c.C.MaxVer == 13 && p.Who != "both" && r.IntN(2) == 0 {
			p.KeyUpdate, p.Stall, p.PeerWriteErr = true, false, false
			p.Step = 20 + r.IntN(60)
			if r.IntN(2) == 0 {
				p.KeyUpdateLive = true
				p.Step = 1 + r.IntN(120)
				p.ParkPm = []int{100, 300, 500, 800}[r.IntN(4)]
			}
		}
		if r.IntN(3) == 0 {
			p.Rules = NetRules{DropPm: 100 + r.IntN(200), DupPm: r.IntN(100), FaultsUntilIdx: 3 + r.IntN(8)}
		}
	}

	return p
}

func okCloseErr(err error) bool {
	if err == nil {
		return true
	}
	m := err.Error()
	for _, sub := range []string{"closed", "EOF", "context canceled", "deadline", "timeout", "alert", "handshake"} {
		if strings.Contains(m, sub) {
			return true
		}
	}

	return false
}

func isDeadlineErr(err error) bool {
	if err == nil {
		return false
	}
	m := err.Error()

	return strings.Contains(m, "deadline") || strings.Contains(m, "timeout")
}

// countAlerts counts alert records of epoch >= 1 in an endpoint's emissions (legacy, non-CID layouts).
func countAlerts(n *SimNet, ep string) (count int, firstIdx int) {
	firstIdx = -1
	for _, em := range n.EmitsOf(ep) {
		recs, _ := ParseDatagram(em.Data, 0)
		for _, r := range recs {
			if !r.Unified && r.Type == CTAlert && r.Epoch >= 1 {
				count++
				if firstIdx < 0 {
					firstIdx = em.Idx
				}
			}
		}
	}

	return count, firstIdx
}

// alertDecoder decodes the alerts of an established session whose layout hides them from the
// wire monitor (tls12_cid records, DTLS 1.3): reference keys from the key log / traffic secrets.
type alertDecoder struct {
	ref12 *Ref12
	dec13 map[string]*Decoder13
	cid   map[string]int // CID length on records emitted by that endpoint
}

func newAlertDecoder(pair *Pair, n *SimNet, cspec, sspec EpSpec) *alertDecoder {
	d := &alertDecoder{cid: map[string]int{"c": len(sspec.CIDOf()), "s": len(cspec.CIDOf())}}
	if cspec.MaxVer == 13 {
		cst, ok := pair.Client.ConnectionState()
		if !ok {
			return nil
		}
		cw, _ := dtls.VerifTrafficSecrets(pair.Client)
		sw, _ := dtls.VerifTrafficSecrets(pair.Server)
		d.dec13 = map[string]*Decoder13{"c": NewDecoder13(uint16(cst.CipherSuiteID), cw), "s": NewDecoder13(uint16(cst.CipherSuiteID), sw)}

		return d
	}
	col := NewHsCollector()
	for _, em := range n.Emits {
		col.Feed(em, d.cid[em.Ep])
	}
	chs, shs := col.Of("c", HTClientHello), col.Of("s", HTServerHello)
	if len(chs) == 0 || len(shs) == 0 || pair.Env.KeyLogs == nil || pair.Env.KeyLogs["c"] == nil {
		return nil
	}
	ch, _ := ParseClientHello(chs[len(chs)-1].Body)
	sh, _ := ParseServerHello(shs[len(shs)-1].Body)
	ms := pair.Env.KeyLogs["c"].Master(ch.Random)
	if len(ms) == 0 {
		return nil
	}
	ref, err := NewRef12(sh.Suites[0], ms[len(ms)-1], ch.Random, sh.Random)
	if err != nil {
		return nil
	}
	if ref.Suite.kind == "cbc" {
		// the library's MAC over tls12_cid records under CBC suites is not the RFC 9146 one (known
		// finding F10 under C10): the reference cannot open them, so nothing can be counted
		return nil
	}
	d.ref12 = ref

	return d
}

// count returns the number of protected alert records ep emitted and the emission index of the first.
func (d *alertDecoder) count(n *SimNet, ep string) (count int, firstIdx int) {
	firstIdx = -1
	for _, em := range n.EmitsOf(ep) {
		recs, _ := ParseDatagram(em.Data, d.cid[ep])
		for _, r := range recs {
			isAlert := false
			switch {
			case r.Unified && d.dec13 != nil:
				if _, ct, _, _, err := d.dec13[ep].Open(r); err == nil && ct == CTAlert {
					isAlert = true
				}
			case !r.Unified && r.Epoch >= 1 && r.Type == CTAlert:
				isAlert = true
			case !r.Unified && r.Epoch >= 1 && r.Type == CTCID && d.ref12 != nil:
				if ct, _, err := d.ref12.Open(ep == "c", r); err == nil && ct == CTAlert {
					isAlert = true
				}
			}
			if isAlert {
				count++
				if firstIdx < 0 {
					firstIdx = em.Idx
				}
			}
		}
	}

	return count, firstIdx
}

func delivered(n *SimNet, fromEpIdx int, to string) bool {
	for _, d := range n.Deliv {
		if d.Ep == to && d.EmitIdx == fromEpIdx && !d.Injected {
			return true
		}
	}

	return false
}

func c16Run(rc *RunCtx, params any) {
	p := params.(*C16Params)
	s := rc.S
	var cspec, sspec EpSpec
	dataPhase := p.Cfg != ""
	plainAlerts := false // close_notify countable on the wire (DTLS 1.2 without CIDs)
	if dataPhase {
		cfg, ok := dataCfgByName(p.Cfg)
		if !ok {
			rc.Violate("harness", "unknown cfg %q", p.Cfg)

			return
		}
		cspec, sspec = cfg.C, cfg.S
		rc.R.Class = "data/" + cfg.Name
	} else {
		v, ok := variantByName(p.Variant)
		if !ok || v.Resume {
			v, _ = variantByName("12-cert")
		}
		cspec, sspec = v.C, v.S
		rc.R.Class = "hs/" + v.Name
	}
	plainAlerts = cspec.MaxVer == 12 && cspec.CIDLen < 0 && sspec.CIDLen < 0
	rc.Note("proto", protoTag(cspec, sspec))
	n := NewSimNet(s, p.Rules)
	pair, err := NewPair(s, n, cspec, sspec, &Env{KeyLogs: map[string]*KeyLog{}})
	if err != nil {
		rc.Violate("harness", "config: %v", err)

		return
	}
	ops := &opSet{s: s}
	s.Policy = SchedPolicy{ParkPermille: p.ParkPm, Active: p.ParkPm > 0}
	conns := map[string]*dtls.Conn{"c": pair.Client, "s": pair.Server}
	socks := map[string]*SimPacketConn{"c": pair.CSock, "s": pair.SSock}
	var targets []string
	if p.Who == "both" {
		targets = []string{"c", "s"}
	} else {
		targets = []string{p.Who}
	}
	other := map[string]string{"c": "s", "s": "c"}
	hsOps := map[string]*Op{}
	startHs := func(ep string) {
		hsOps[ep] = ops.start("HandshakeContext", ep, func() (int, error) {
			return 0, conns[ep].HandshakeContext(context.Background())
		})
	}
	cleanup := func() {
		s.Policy.Active = false
		for _, ep := range []string{"c", "s"} {
			ep := ep
			s.Go(ep+"-cleanup-close", func() { _ = conns[ep].Close() })
		}
		s.Drain(func() bool { return s.OpsLive() == 0 }, 20*time.Second)
		if s.OpsLive() != 0 {
			n.CloseAll()
			socks["c"].SetStall(false)
			socks["s"].SetStall(false)
			s.Drain(func() bool { return s.OpsLive() == 0 }, 20*time.Second)
		}
	}
	established := false
	var kuOp *Op
	readers := map[string]*Op{}
	if dataPhase {
		startHs("s")
		off := s.Ch.Draw("start", func(r *rand.Rand) Dec { return Dec{C: 1 + r.Int64N(999_983)} })
		s.After(time.Duration(off.C), func() { startHs("c") })
		if !s.Run(func() bool { return hsOps["c"] != nil && hsOps["c"].Done && hsOps["s"].Done }, 10*time.Minute) ||
			hsOps["c"].Err != nil || hsOps["s"].Err != nil {
			rc.Note("not-established", "")
			cleanup()

			return
		}
		established = true
		for _, ep := range []string{"c", "s"} {
			ep := ep
			readers[ep] = ops.start("Read", ep, func() (int, error) {
				buf := make([]byte, 8192)
				for {
					k, err := conns[ep].Read(buf)
					if err != nil {
						return 0, err
					}
					s.Record("read", ep, preview(buf[:k]), nil)
				}
			})
		}
		// traffic from the side that is not (only) the target
		for _, ep := range []string{"c", "s"} {
			ep := ep
			ops.start("Writes", ep, func() (int, error) {
				for k := 0; k < 4; k++ {
					if _, err := conns[ep].Write(Payload(ep, 0, k, 20)); err != nil {
						return k, err
					}
					s.Sleep(time.Duration(3+k) * time.Millisecond)
				}

				return 4, nil
			})
		}
		// state accessors called concurrently with Read / Write / Close / deadline setters
		for _, ep := range []string{"c", "s"} {
			ep := ep
			ops.start("Accessors", ep, func() (int, error) {
				for k := 0; k < 6; k++ {
					if st, ok := conns[ep].ConnectionState(); ok {
						_, _ = st.ExportKeyingMaterial("EXTRACTOR-verif", nil, 16)
					}
					_ = conns[ep].RemoteAddr()
					_ = conns[ep].LocalAddr()
					_, _ = conns[ep].SelectedSRTPProtectionProfile()
					s.Sleep(time.Duration(2+k) * time.Millisecond)
				}

				return 6, nil
			})
		}
		if p.Stall {
			for _, ep := range targets {
				socks[ep].SetStall(true)
			}
		}
		if p.KeyUpdate && len(targets) == 1 {
			ep := targets[0]
			s.Run(func() bool { return false }, 50*time.Millisecond)
			if !p.KeyUpdateLive {
				n.Rewrite = func(em *Emission) []byte {
					if em.Ep == other[ep] {
						return nil // the ACK of the KeyUpdate never arrives
					}

					return em.Data
				}
			}
			kuOp = ops.start("UpdateKeys", ep, func() (int, error) {
				return 0, conns[ep].UpdateKeys(context.Background(), dtls.KeyUpdateOptions{})
			})
		}
	}
	// arm the action
	base := s.Steps
	fired := false
	var firedAt time.Duration
	closeOps := map[string][]*Op{}
	peerClosedFirst := map[string]bool{}
	fire := func() {
		fired = true
		firedAt = s.Now()
		if kuOp != nil && p.KeyUpdateLive && !kuOp.Done {
			s.Probe("action-fired-while-live-key-update-pending:" + p.Action)
		}
		if p.PeerWriteErr && p.Who != "both" {
			socks[other[p.Who]].WriteErr = func(int) error { return errors.New("simnet: write: no buffer space available") }
		}
		for _, ep := range targets {
			ep := ep
			if readers[ep] != nil && readers[ep].Done {
				peerClosedFirst[ep] = true
			}
			pre := p.Pre
			if p.Action != "close" {
				pre = ""
			}
			switch pre {
			case "wpast":
				_ = conns[ep].SetWriteDeadline(time.Unix(1, 0))
			case "rpast":
				_ = conns[ep].SetReadDeadline(time.Unix(1, 0))
			case "bothpast":
				_ = conns[ep].SetDeadline(time.Unix(1, 0))
			}
			switch p.Action {
			case "close":
				for k := 0; k < p.Closers; k++ {
					closeOps[ep] = append(closeOps[ep], ops.start("Close", ep, func() (int, error) { return 0, conns[ep].Close() }))
				}
			case "rdeadline":
				_ = conns[ep].SetReadDeadline(time.Now().Add(s.Uniq(time.Duration(p.DeadlineMs) * time.Millisecond)))
			case "wdeadline":
				_ = conns[ep].SetWriteDeadline(time.Now().Add(s.Uniq(time.Duration(p.DeadlineMs) * time.Millisecond)))
			case "alert":
				// a fatal alert in the clear; only meaningful before the receiver is established
				n.InjectNow(pair.addrOf(other[ep]), pair.addrOf(ep), []byte{21, 0xfe, 0xfd, 0, 0, 0, 0, 0, 0, 0xff, 0, 0, 2, 2, 40})
			}
		}
	}
	if p.KeyUpdateLive && kuOp != nil {
		// aim at the moment the ACK of the KeyUpdate is being processed: the action fires on the
		// controller at the instant the first datagram reaches the updating endpoint, so that the
		// goroutines it starts and the library's reader / handshake goroutines become runnable
		// together and the scheduler (and its parking) decides how they interleave at every lock
		base += 1 << 40
		n.OnDeliver = func(d *Delivery) {
			if !fired && d.Ep == kuOp.Ep && !d.Injected {
				fire()
			}
		}
	}
	s.OnStep = func(step int64) {
		if !fired && step-base >= int64(p.Step) {
			fire()
		}
	}
	if !dataPhase {
		startHs("s")
		off := s.Ch.Draw("start", func(r *rand.Rand) Dec { return Dec{C: 1 + r.Int64N(999_983)} })
		s.After(time.Duration(off.C), func() { startHs("c") })
	}
	// run until the action fired and its consequences settled
	s.Run(func() bool { return fired }, 10*time.Minute)
	s.OnStep = nil
	if !fired {
		fire()
	}
	if !dataPhase && hsOps["c"] != nil && hsOps["s"] != nil && hsOps["c"].Done && hsOps["s"].Done && hsOps["c"].Err == nil && hsOps["s"].Err == nil {
		established = true
	}
	rc.R.NonTriv = true
	settle := 30 * time.Second
	switch p.Action {
	case "close":
		s.Run(func() bool {
			for _, ep := range targets {
				if len(ops.pending(ep)) > 0 {
					return false
				}
			}

			return true
		}, settle)
		for _, ep := range targets {
			for _, co := range closeOps[ep] {
				if !co.Done {
					rc.Violate("close-hangs", "%s: Close() called at t=%v (step %d) did not return within %v; pending on that Conn: %s", ep, firedAt, p.Step, settle, opNames(ops.pending(ep)))
					cleanup()

					return
				}
			}
			if pend := ops.pending(ep); len(pend) > 0 {
				rc.Violate("op-stuck-after-close", "%s: %s still blocked %v after Close() returned", ep, opNames(pend), settle)
				cleanup()

				return
			}
			for _, op := range ops.ops {
				if op.Ep == ep && op.Done && op.RetAt >= firedAt && !okCloseErr(op.Err) {
					rc.Violate("foreign-error", "%s: %s returned %q after Close", ep, op.Name, op.Err)
					cleanup()

					return
				}
				if op.Ep == ep && op.Done && op.Err != nil {
					s.Probe("err:" + op.Name + ":" + errClass(op.Err))
				}
			}
		}
		// close_notify accounting: on the wire where alerts are visible in record headers, through
		// the reference decoder for connection-ID and DTLS 1.3 layouts of established sessions
		countFn := func(ep string) (int, int) { return countAlerts(n, ep) }
		countable := plainAlerts
		if !plainAlerts && dataPhase && established {
			if ad := newAlertDecoder(pair, n, cspec, sspec); ad != nil {
				countFn = func(ep string) (int, int) { return ad.count(n, ep) }
				countable = true
				s.Probe("alerts-decoded-by-reference")
			}
		}
		if countable {
			for _, ep := range targets {
				cnt, idx := countFn(ep)
				if cnt > 1 {
					rc.Violate("close-notify-twice", "%s emitted %d alert records in epoch>=1", ep, cnt)
					cleanup()

					return
				}
				hsDone := hsOps[ep] != nil && hsOps[ep].Done && hsOps[ep].Err == nil && hsOps[ep].RetAt <= firedAt
				peerAlerts, _ := countFn(other[ep])
				if hsDone && !peerClosedFirst[ep] && peerAlerts == 0 && !p.Stall && cnt != 1 {
					rc.Violate("close-notify-missing", "%s: application Close() of an established, still-open session emitted %d close_notify (pre-close deadline state %q)", ep, cnt, p.Pre)
					cleanup()

					return
				}
				if cnt == 1 && p.Who != "both" && established && readers[other[ep]] != nil {
					// if the alert datagram was delivered the peer's Read must end with EOF
					s.Run(func() bool { return readers[other[ep]].Done }, settle)
					if delivered(n, idx, other[ep]) {
						if !readers[other[ep]].Done {
							rc.Violate("peer-read-no-eof", "%s closed and its close_notify was delivered, but %s's Read is still blocked", ep, other[ep])
							cleanup()

							return
						}
						if readers[other[ep]].Err != io.EOF && !strings.Contains(readers[other[ep]].Err.Error(), "EOF") {
							rc.Violate("peer-read-no-eof", "%s closed; %s's Read returned %q instead of EOF", ep, other[ep], readers[other[ep]].Err)
							cleanup()

							return
						}
						s.Probe("peer-read-eof-after-close-notify")
					}
				}
			}
		}
	case "rdeadline", "wdeadline":
		d := time.Duration(p.DeadlineMs) * time.Millisecond
		if kuOp != nil {
			// a write deadline interrupts a blocked UpdateKeys; a read deadline is none of its business
			s.Run(func() bool { return kuOp.Done }, d+settle)
			switch {
			case p.Action == "wdeadline" && !kuOp.Done:
				rc.Violate("deadline-ignored:UpdateKeys", "%s: UpdateKeys, blocked waiting for an ACK that cannot arrive, was not interrupted %v after a write deadline of %v set from another goroutine", kuOp.Ep, settle, d)
				cleanup()

				return
			case p.Action == "wdeadline":
				s.Probe("write-deadline-interrupted-UpdateKeys")
			case p.Action == "rdeadline" && kuOp.Done && isDeadlineErr(kuOp.Err) && p.Pre == "":
				rc.Violate("deadline-crosstalk:UpdateKeys", "%s: UpdateKeys failed with %q after a READ deadline was set; no write deadline was ever set", kuOp.Ep, kuOp.Err)
				cleanup()

				return
			case p.Action == "rdeadline":
				s.Probe("read-deadline-left-UpdateKeys-alone")
			}
		}
		for _, ep := range targets {
			var op *Op
			if p.Action == "rdeadline" {
				op = readers[ep]
			}
			if op == nil {
				continue
			}
			s.Run(func() bool { return op.Done }, d+settle)
			if !op.Done {
				rc.Violate("deadline-ignored", "%s: blocked Read not interrupted %v after a read deadline of %v", ep, settle, d)
				cleanup()

				return
			}
			if isDeadlineErr(op.Err) {
				if op.RetAt < firedAt+d {
					rc.Violate("deadline-early", "%s: Read returned deadline error at %v, before the deadline %v", ep, op.RetAt, firedAt+d)
					cleanup()

					return
				}
				s.Probe("read-deadline-fired")
			}
		}
	case "alert":
		for _, ep := range targets {
			op := hsOps[ep]
			if op == nil || (op.Done && op.RetAt < firedAt) {
				continue // already finished: a cleartext alert means nothing to an established endpoint
			}
			s.Run(func() bool { return op.Done }, settle)
			if !op.Done {
				rc.Violate("alert-ignored", "%s: fatal alert delivered during the handshake, HandshakeContext still blocked after %v", ep, settle)
				cleanup()

				return
			}
			if op.Err != nil {
				s.Probe("handshake-ended-by-fatal-alert")
			}
		}
	}
	cleanup()
	if pend := ops.pending(""); len(pend) > 0 {
		rc.Violate("stuck-at-end", "operations still blocked after both sides were closed: %s", opNames(pend))
	}
	// goroutine leaks are judged by the bubble: see RunResult.Leaked (set by the worker)
	rc.Note("leak-check", "bubble")
}

func opNames(ops []*Op) string {
	var parts []string
	for _, o := range ops {
		parts = append(parts, o.Ep+"."+o.Name)
	}

	return strings.Join(parts, ",")
}

func (p *Pair) addrOf(ep string) *netAddr {
	if ep == p.CName {
		return &netAddr{p.CAddr.String()}
	}

	return &netAddr{p.SAddr.String()}
}

type netAddr struct{ s string }

func (a *netAddr) Network() string { return "udp" }
func (a *netAddr) String() string  { return a.s }

func init() {
	Register(&Scenario{
		ID:              "C16",
		BudgetIsVerdict: true,
		Counts:          c16Counts,
		Gen:             c16Gen,
		NewParams:       func() any { return &C16Params{} },
		Run:             c16Run,
	})
}
