package verifsim

import (
	"fmt"
	"math/rand/v2"
	"sort"
	"strings"
	"time"

	dtls "github.com/pion/dtls/v3"
)

// C17: retransmission timer law, backoff reset, no storms.

type C17Params struct {
	Variant  string `json:"variant"`
	Mode     string `json:"mode"`      // silence | reset | stale | partial | post
	CutNs    int64  `json:"cut_ns"`    // silence begins
	HealNs   int64  `json:"heal_ns"`   // reset mode: link heals at this time ...
	Cut2Ns   int64  `json:"cut2_ns"`   // ... and is cut again at this time
	FlightMs int    `json:"flight_ms"` // retransmission interval I
	NoBack   bool   `json:"nobackoff"`
	Replays  int    `json:"replays"` // stale mode: number of replayed/garbage datagrams
	Garbage  bool   `json:"garbage"`
	LatMs    int    `json:"lat_ms"`
	// partial mode: the link dies by datagram count instead of by time - the client's datagrams
	// from index CutC on and the server's from CutS on are lost, typically in the middle of a
	// flight, so that a message stays partially reassembled while stale copies of the datagrams
	// that did arrive are presented again (with fresh record numbers)
	CutC int `json:"cut_c,omitempty"`
	CutS int `json:"cut_s,omitempty"`
	MTU  int `json:"mtu,omitempty"`
	// post mode (scn_c17post.go): a DTLS 1.3 KeyUpdate flight sent into silence by endpoint Side
	// while its application writes every TickMs
	Side       string `json:"side,omitempty"`
	TickMs     int    `json:"tick_ms,omitempty"`
	SilenceMs  int    `json:"silence_ms,omitempty"`
	UpdDelayMs int    `json:"upd_delay_ms,omitempty"`
	OneWay     bool   `json:"one_way,omitempty"`
	ReqPeer    bool   `json:"req_peer,omitempty"`
}

func c17Counts(tier string) (int, int) {
	if tier == "thorough" {
		return 0, 100000000
	}

	return 0, 10000000
}

func c17Gen(r *rand.Rand, tier string, idx int) any {
	vs := Variants()
	p := &C17Params{Variant: vs[r.IntN(len(vs))].Name}
	p.Mode = []string{"silence", "silence", "reset", "stale", "stale", "partial", "post"}[r.IntN(7)]
	p.FlightMs = []int{20, 50, 100, 300, 1000, 1000, 2000}[r.IntN(7)]
	p.NoBack = r.IntN(4) == 0
	p.LatMs = 1 + r.IntN(30)
	// cut somewhere inside (or shortly after) the handshake: RTT-scaled
	p.CutNs = int64(time.Millisecond) * int64(r.IntN(12*p.LatMs+2))
	if r.IntN(6) == 0 {
		p.CutNs = 0
	}
	if p.Mode == "reset" {
		p.HealNs = p.CutNs + int64(time.Millisecond)*int64(p.FlightMs)*int64(1+r.IntN(12))
		p.Cut2Ns = p.HealNs + int64(time.Millisecond)*int64(1+r.IntN(4*p.LatMs+2))
	}
	if p.Mode == "stale" {
		p.Replays = 1 + r.IntN(40)
		p.Garbage = r.IntN(3) == 0
	}
	if p.Mode == "partial" {
		p.Replays = 1 + r.IntN(40)
		p.CutC, p.CutS = 1+r.IntN(16), 1+r.IntN(24)
		p.MTU = []int{0, 100, 100, 200, 400}[r.IntN(5)]
		p.CutNs = int64(time.Millisecond) * int64(40+12*p.LatMs)
	}
	if p.Mode == "post" {
		p.Variant = []string{"13-full", "13-hrr", "13-clientauth", "dual-13"}[r.IntN(4)]
		p.Side = []string{"c", "s"}[r.IntN(2)]
		p.TickMs = []int{0, 5, 20, 100, 400, 1500}[r.IntN(6)]
		p.SilenceMs = p.FlightMs * (1 << (2 + r.IntN(7)))
		if p.SilenceMs > 600_000 {
			p.SilenceMs = 600_000
		}
		if p.TickMs > 0 && p.SilenceMs > 5000*p.TickMs {
			p.SilenceMs = 5000 * p.TickMs
		}
		if p.NoBack && p.SilenceMs > 200*p.FlightMs {
			p.SilenceMs = 200 * p.FlightMs
		}
		p.UpdDelayMs = r.IntN(50)
		p.OneWay = r.IntN(3) == 0
		p.ReqPeer = r.IntN(2) == 0
	}

	return p
}

type burst struct {
	at    time.Duration
	n     int
	cause string // "response" (coincides with a delivery or API call) or "timer"
	info  string
	shape string // flight identity: datagram lengths and visible handshake messages, without record numbers
}

func shapeOf(data []byte) string {
	recs, _ := ParseDatagram(data, 0)
	sh := fmt.Sprintf("%d:", len(data))
	for _, r := range recs {
		for _, f := range r.Hs {
			sh += fmt.Sprintf("%d#%d@%d,", f.Type, f.MsgSeq, f.Off)
		}
	}

	return sh
}

// burstsOf groups an endpoint's emissions by instant and classifies each group.
func burstsOf(n *SimNet, ep string, opTimes map[time.Duration]bool) []burst {
	deliv := map[time.Duration]bool{}
	for _, d := range n.Deliv {
		if d.Ep == ep {
			deliv[d.At] = true
		}
	}
	var out []burst
	for _, em := range n.EmitsOf(ep) {
		if len(out) > 0 && out[len(out)-1].at == em.At {
			out[len(out)-1].n++
			out[len(out)-1].shape += "|" + shapeOf(em.Data)

			continue
		}
		cause := "timer"
		if deliv[em.At] || opTimes[em.At] {
			cause = "response"
		}
		out = append(out, burst{at: em.At, n: 1, cause: cause, info: DescribeDatagram(em.Data), shape: shapeOf(em.Data)})
	}

	return out
}

func c17Run(rc *RunCtx, params any) {
	p := params.(*C17Params)
	s := rc.S
	v, ok := variantByName(p.Variant)
	if !ok {
		v, _ = variantByName("12-cert")
	}
	rc.R.Class = v.Name + "/" + p.Mode
	applyKnobs(&v.C, p.FlightMs, p.NoBack, p.MTU)
	applyKnobs(&v.S, p.FlightMs, p.NoBack, p.MTU)
	if p.Mode == "post" {
		if v.C.MaxVer != 13 || v.S.MaxVer != 13 {
			v, _ = variantByName("13-full")
			applyKnobs(&v.C, p.FlightMs, p.NoBack, 0)
			applyKnobs(&v.S, p.FlightMs, p.NoBack, 0)
			rc.R.Class = v.Name + "/" + p.Mode
		}
		rc.Note("proto", protoTag(v.C, v.S))
		c17Post(rc, p, v)

		return
	}
	env := &Env{Stores: map[string]dtls.SessionStore{}}
	var base int64
	if v.Resume {
		// an abbreviated handshake (the server sends the first Finished): a clean first connection
		// fills both stores, the connection under test starts after it
		env.Stores["cstore"] = NewSimStore(s, "cstore", 0)
		env.Stores["sstore"] = NewSimStore(s, "sstore", 0)
		if !runResumePrelude(rc, v, env) {
			return
		}
		s.Run(func() bool { return false }, time.Second)
		base = int64(s.Now())
		p = &C17Params{Variant: p.Variant, Mode: p.Mode, CutNs: p.CutNs + base, HealNs: p.HealNs + base, Cut2Ns: p.Cut2Ns + base, FlightMs: p.FlightMs,
			NoBack: p.NoBack, Replays: p.Replays, Garbage: p.Garbage, LatMs: p.LatMs, CutC: p.CutC, CutS: p.CutS, MTU: p.MTU}
	}
	stale := p.Mode == "stale" || p.Mode == "partial"
	horizon := 16 * time.Minute
	if p.NoBack && p.FlightMs > 0 {
		// without back-off the timer fires every interval for the whole run: keep the number of
		// expected retransmissions (and the real time a run costs) in the thousands
		if h := 4000 * time.Duration(p.FlightMs) * time.Millisecond; h < horizon {
			horizon = h
		}
	}
	rules := NetRules{BaseLatencyNs: int64(p.LatMs) * int64(time.Millisecond), JitterNs: int64(900 * time.Microsecond)}
	switch p.Mode {
	case "reset":
		rules.Partitions = [][2]int64{{p.CutNs, p.HealNs}, {p.Cut2Ns, base + int64(2*horizon)}}
	case "partial":
		rules.CutIdx = map[string]int{"c": p.CutC, "s": p.CutS}
	default:
		rules.Partitions = [][2]int64{{p.CutNs, base + int64(2*horizon)}}
	}
	rc.Note("proto", protoTag(v.C, v.S))
	// sixteen virtual minutes at a 20 ms constant interval are ~50000 legitimate
	// retransmissions: this scenario has its own storm oracle, so the generic
	// emission budget is lifted and the step budget raised
	s.MaxEmits, s.MaxSteps = 0, 600_000
	n := NewSimNet(s, rules)
	pair, err := NewPair(s, n, v.C, v.S, env)
	if err != nil {
		rc.Violate("harness", "config: %v", err)

		return
	}
	opTimes := map[time.Duration]bool{}
	pair.StartHandshakes(0)
	silenceFrom := time.Duration(p.CutNs)
	if p.Mode == "reset" {
		silenceFrom = time.Duration(p.Cut2Ns)
	}
	var staleSeq uint64
	// stale flood: replay what the peer already sent (or garbage) at drawn times during the silence
	if stale {
		for i := 0; i < p.Replays; i++ {
			d := s.Ch.Draw("stale", func(r *rand.Rand) Dec {
				return Dec{A: int64(r.IntN(2)), B: int64(r.IntN(64)), C: r.Int64N(int64(10 * time.Minute))}
			})
			at := silenceFrom + time.Duration(d.C) + time.Duration(i)*time.Microsecond + 137*time.Nanosecond
			toServer := d.A == 0
			s.After(at-s.Now(), func() {
				dst, from, to := "s", pair.CAddr, pair.SAddr
				if !toServer {
					dst, from, to = "c", pair.SAddr, pair.CAddr
				}
				// stale = something this endpoint has already received from its peer
				var seen [][]byte
				for _, dl := range n.Deliv {
					if dl.Ep == dst && !dl.Injected {
						seen = append(seen, dl.Data)
					}
				}
				var data []byte
				if p.Garbage && d.B%2 == 1 {
					// an ACK that acknowledges nothing: cleartext, naming epoch 0 record numbers the
					// endpoint never used. Not new data, so no reason to fall back to the initial interval
					var body []byte
					for q := uint64(0); q < 3; q++ {
						body = append(append(body, u64(0)...), u64(0xfff000+uint64(d.B)*4+q)...)
					}
					staleSeq++
					data = append([]byte{26, 0xfe, 0xfd, 0, 0}, u64(0x100000 + staleSeq)[2:]...)
					data = append(data, 0, byte(len(body)+2), 0, byte(len(body)))
					data = append(data, body...)
					s.Fault("stale-ack-for-nothing")
				} else if p.Garbage || len(seen) == 0 {
					data = []byte{22, 0xfe, 0xfd, 0, 0, 0, 0, 0, 0, 0, byte(d.B), 0, 3, 9, 9, 9}
				} else {
					data = append([]byte(nil), seen[int(d.B)%len(seen)]...)
					// a peer retransmission carries fresh record numbers (else the replay
					// window drops it before the handshake layer sees it)
					off := 0
					if recs, err := ParseDatagram(data, 0); err == nil {
						for _, r := range recs {
							if !r.Unified && r.Epoch == 0 {
								staleSeq++
								v := uint64(0x100000) + staleSeq
								for k := 0; k < 6; k++ {
									data[off+5+k] = byte(v >> (8 * (5 - k)))
								}
							}
							off += len(r.Raw)
						}
					}
				}
				s.Fault("stale-replay")
				n.InjectNow(from, to, data)
			})
		}
	}
	s.Run(func() bool { return false }, horizon)
	rc.R.NonTriv = true
	I := time.Duration(p.FlightMs) * time.Millisecond
	// largest flight (datagrams per burst) of each endpoint in this run
	for _, ep := range []string{"c", "s"} {
		bs := burstsOf(n, ep, opTimes)
		hs := pair.CHs
		if ep == "s" {
			hs = pair.SHs
		}
		is13 := v.C.MinVer == 13 || (v.C.MaxVer == 13 && v.S.MaxVer == 13)
		maxBurst := 1
		for _, b := range bs {
			if b.n > maxBurst {
				maxBurst = b.n
			}
		}
		// deliveries to ep
		var delivTimes []time.Duration
		for _, d := range n.Deliv {
			if d.Ep == ep {
				delivTimes = append(delivTimes, d.At)
			}
		}
		sort.Slice(delivTimes, func(i, j int) bool { return delivTimes[i] < delivTimes[j] })
		// (4) cookie requests only in direct response
		for _, b := range bs {
			if b.cause == "timer" && (contains(b.info, "HelloVerifyRequest") || (contains(b.info, "ServerHello#0)]") && is13 && ep == "s" && false)) {
				rc.Violate("cookie-on-timer", "%s emitted %s at t=%v with no delivery at that instant (timer-driven cookie request)", ep, b.info, b.at)

				goto done
			}
		}
		// (4b) a finished DTLS 1.2 endpoint emits only in response
		if !is13 && hs.Done && hs.Err == nil {
			for _, b := range bs {
				if b.at > hs.At && b.cause == "timer" {
					rc.Violate("finished-retransmits-on-timer", "%s completed its handshake at t=%v and emitted %s at t=%v with no delivery at that instant", ep, hs.At, b.info, b.at)

					goto done
				}
			}
		}
		// (1)(2)(3) exact timer law from the first transmission of the endpoint's current flight
		{
			anchor := -1
			if len(bs) > 0 {
				// the flight's first transmission: the first burst that already contained
				// every datagram shape of the latest (re)transmission
				cur := strings.Split(bs[len(bs)-1].shape, "|")
				for i, b := range bs {
					have := strings.Split(b.shape, "|")
					all := true
					for _, c := range cur {
						found := false
						for k, h := range have {
							if h == c {
								have[k] = "\x00"
								found = true

								break
							}
						}
						all = all && found
					}
					if all {
						anchor = i

						break
					}
				}
			}
			exact := anchor >= 0
			if exact {
				for _, d := range n.Deliv {
					if d.Ep != ep || d.At <= bs[anchor].at {
						continue
					}
					// anything delivered after the flight's first transmission makes the
					// schedule input-dependent, except stale input to a DTLS 1.2 endpoint and,
					// for DTLS 1.3 (which answers a repeated flight at once and counts that as a
					// timeout), input that is no flight at all: garbage and ACKs for nothing
					if !(stale && d.Injected && (!is13 || p.Garbage)) {
						exact = false
					}
				}
			}
			if exact && !(hs.Done && hs.Err == nil && !is13) {
				gap := I
				expect := bs[anchor].at
				k := 0
				for _, b := range bs[anchor+1:] {
					if b.cause != "timer" {
						continue // immediate answers to stale deliveries are not on the schedule
					}
					expect += gap
					if b.at != expect {
						rc.Violate("timer-law", "%s (%s, I=%v, backoff=%v): retransmission #%d at t=%v, the law puts it at t=%v (flight first sent at t=%v)", ep, p.Mode, I, !p.NoBack, k+1, b.at, expect, bs[anchor].at)

						goto done
					}
					k++
					if !p.NoBack {
						gap *= 2
						if gap > 60*time.Second {
							gap = 60 * time.Second
						}
					}
				}
				if k > 0 {
					s.Probe("timer-law-checked")
					if gap >= 60*time.Second && !p.NoBack {
						s.Probe("backoff-reached-60s-cap")
					}
					if p.Mode == "reset" {
						s.Probe("reset-after-backoff-checked")
					}
					if p.Mode == "stale" {
						s.Probe("law-under-stale-input-checked")
					}
					if p.Mode == "partial" {
						s.Probe("law-under-stale-input-with-partial-flight-checked")
					}
				}
			}
		}
		// (3b) without new data the back-off never collapses: after the last datagram the network
		// itself delivered (everything later is a stale copy of something already received, or
		// silence), the gap that follows the k-th timer-driven retransmission is at least
		// min(2^k I, 60 s) - the fastest schedule the law allows if that last datagram was new data
		{
			lastGenuine := time.Duration(-1)
			for _, d := range n.Deliv {
				if d.Ep == ep && !d.Injected && d.At > lastGenuine {
					lastGenuine = d.At
				}
			}
			var timers []time.Duration
			for _, b := range bs {
				if b.cause == "timer" && b.at > lastGenuine {
					timers = append(timers, b.at)
				}
			}
			floor := I
			for k := 1; k < len(timers); k++ {
				// timers[0] is a retransmission, except when nothing was ever delivered: then it is
				// the spontaneous first transmission of the first flight and the first gap is I
				if !p.NoBack && !(k == 1 && lastGenuine < 0) {
					floor *= 2
					if floor > 60*time.Second {
						floor = 60 * time.Second
					}
				}
				if got := timers[k] - timers[k-1]; got < floor {
					rc.Violate("backoff-collapsed", "%s (%s, I=%v, backoff=%v): nothing new arrived after t=%v, yet timer retransmission #%d at t=%v follows #%d after %v; the law allows no less than %v there", ep, p.Mode, I, !p.NoBack, lastGenuine, k+1, timers[k], k, got, floor)

					goto done
				}
			}
			if len(timers) > 2 {
				s.Probe("backoff-floor-checked")
			}
		}
		// (3c) a flight that cannot have been acknowledged keeps being retransmitted: if part of the
		// first transmission of the endpoint's current flight was lost and nothing it sent afterwards
		// got through either, the peer cannot have acknowledged that part (in DTLS 1.3) nor answered
		// it (in either version), so as long as the handshake call has not returned the timer must
		// keep firing; the last retransmission lies within one capped interval of the end of the run
		if !hs.Done {
			type grp struct {
				at              time.Duration
				timer, hasHS    bool
				cookie, dropped bool
			}
			var gs []grp
			deliv := map[time.Duration]bool{}
			for _, d := range n.Deliv {
				if d.Ep == ep {
					deliv[d.At] = true
				}
			}
			for _, em := range n.EmitsOf(ep) {
				if len(gs) == 0 || gs[len(gs)-1].at != em.At {
					gs = append(gs, grp{at: em.At, timer: !deliv[em.At] && !opTimes[em.At] && len(gs) > 0})
				}
				g := &gs[len(gs)-1]
				recs, _ := ParseDatagram(em.Data, 0)
				for _, r := range recs {
					if (r.Unified && r.Epoch == 2) || (!r.Unified && r.Type == CTHandshake) {
						g.hasHS = true
					}
					for _, f := range r.Hs {
						if f.Type == HTHelloVerifyRequest {
							g.cookie = true
						}
						if f.Type == HTServerHello && f.FLen == f.Length {
							if sh, err := ParseServerHello(f.Body); err == nil && sh.IsHRR {
								g.cookie = true
							}
						}
					}
				}
				if em.Act == ActDrop {
					g.dropped = true
				}
			}
			fi := -1
			for i, g := range gs {
				if !g.timer && g.hasHS {
					fi = i
				}
			}
			if fi >= 0 && gs[fi].dropped && !gs[fi].cookie {
				allLost := true
				for _, em := range n.EmitsOf(ep) {
					if em.At > gs[fi].at && em.Act != ActDrop {
						allLost = false
					}
				}
				last := gs[fi].at
				for _, g := range gs[fi+1:] {
					if g.timer {
						last = g.at
					}
				}
				capGap := 60 * time.Second
				if p.NoBack {
					capGap = I
				}
				end := s.Now()
				if allLost && end-last > capGap+I+time.Second {
					rc.Violate("retransmission-stopped", "%s (%s, I=%v, backoff=%v): part of the flight it first sent at t=%v never arrived and nothing it sent later did, its handshake call has not returned, yet its last retransmission was at t=%v and the run ended at t=%v (more than a full capped interval later)", ep, p.Mode, I, !p.NoBack, gs[fi].at, last, end)

					goto done
				}
				if allLost {
					s.Probe("unacknowledgeable-flight-kept-retransmitting")
				}
			}
		}
		// (5) no storm: emissions bounded by timer slots + deliveries
		{
			slots := 0
			g, t := I, time.Duration(0)
			for t+g <= horizon {
				t += g
				slots++
				if !p.NoBack {
					g *= 2
					if g > 60*time.Second {
						g = 60 * time.Second
					}
				}
			}
			total := len(n.EmitsOf(ep))
			// every new flight restarts the schedule at I, so allow a full schedule per delivery-triggered flight is
			// far too generous; the statement's bound is timer schedule + constant per datagram received
			bound := (slots + len(delivTimes) + 1) * (maxBurst + 2)
			if p.NoBack {
				bound = (int(horizon/I) + len(delivTimes) + 1) * (maxBurst + 2)
			}
			if total > bound {
				rc.Violate("storm", "%s emitted %d datagrams in %v with %d deliveries; bound (timer slots %d + deliveries + 1) x (flight %d + 2) = %d", ep, total, horizon, len(delivTimes), slots, maxBurst, bound)

				goto done
			}
		}
	}
done:
	pair.Teardown()
	_ = fmt.Sprint
}

func init() {
	Register(&Scenario{
		ID:              "C17",
		BudgetIsVerdict: true,
		Counts:          c17Counts,
		Gen:             c17Gen,
		NewParams:       func() any { return &C17Params{} },
		Run:             c17Run,
	})
}
