package verifsim

import (
	"context"
	"fmt"
	"time"

	dtls "github.com/pion/dtls/v3"
)

// C17, mode "post": the timer law for a DTLS 1.3 post-handshake flight (a KeyUpdate) while the
// local application keeps the connection busy. The handshake completes on a clean link, the link
// then goes silent (both ways, or only towards the updating endpoint so that the KeyUpdate arrives
// and its ACK does not), one endpoint calls UpdateKeys and keeps writing application data every
// TickMs. Nothing is delivered to that endpoint during the silence, so the only thing that may
// drive its KeyUpdate retransmissions is the timer: t0+I, t0+3I, t0+7I, ... capped at 60 s,
// whatever the application does in between.
func c17Post(rc *RunCtx, p *C17Params, v HsVariant) {
	s := rc.S
	lat := time.Duration(p.LatMs) * time.Millisecond
	n := NewSimNet(s, NetRules{BaseLatencyNs: int64(lat), JitterNs: int64(900 * time.Microsecond)})
	s.MaxEmits, s.MaxSteps = 0, 600_000
	pair, err := NewPair(s, n, v.C, v.S, nil)
	if err != nil {
		rc.Violate("harness", "config: %v", err)

		return
	}
	defer pair.Teardown()
	if !pair.Establish(time.Minute) {
		rc.Note("not-established", "")

		return
	}
	// let the server's own post-handshake flight (session ticket) be acknowledged
	s.Run(func() bool { return false }, 5*time.Second+20*lat)
	pair.StartReader("c")
	pair.StartReader("s")
	rc.R.NonTriv = true
	ep, peer := "c", "s"
	if p.Side == "s" {
		ep, peer = "s", "c"
	}
	I := time.Duration(p.FlightMs) * time.Millisecond
	cutAt := s.Now()
	silence := time.Duration(p.SilenceMs) * time.Millisecond
	if p.OneWay {
		// only the peer's datagrams are lost: the KeyUpdate arrives, every ACK is lost
		n.Rules.CutIdx = map[string]int{peer: len(n.EmitsOf(peer))}
	} else {
		n.Rules.Partitions = [][2]int64{{int64(cutAt), int64(cutAt + 2*silence + time.Hour)}}
	}
	before := len(n.EmitsOf(ep))
	stop := false
	const appSize = 300
	if p.TickMs > 0 {
		for _, e := range []string{ep, peer} {
			if e == peer && p.OneWay {
				continue // the peer's application stays quiet: what it sends would be lost anyway
			}
			e := e
			conn := pair.ConnOf(e)
			s.Go(e+"-ticker", func() {
				for k := 0; !stop && k < 6000; k++ {
					if _, err := conn.Write(Payload(e, 9, k, appSize)); err != nil {
						return
					}
					s.Sleep(time.Duration(p.TickMs) * time.Millisecond)
				}
			})
		}
	}
	var uerr error
	udone := false
	s.Go(ep+"-updater", func() {
		s.Sleep(time.Duration(p.UpdDelayMs) * time.Millisecond)
		ctx, cancel := context.WithTimeout(context.Background(), s.Uniq(silence+time.Hour))
		defer cancel()
		s.Record("op-call", ep, "UpdateKeys", nil)
		uerr = pair.ConnOf(ep).UpdateKeys(ctx, dtls.KeyUpdateOptions{RequestPeerUpdate: p.ReqPeer})
		s.Record("op-ret", ep, fmt.Sprintf("UpdateKeys err=%v", uerr), nil)
		udone = true
	})
	s.Run(func() bool { return udone }, silence)
	stop = true
	end := s.Now()
	if udone {
		rc.Violate("update-returned-in-silence", "%s: UpdateKeys returned (%v) although nothing was delivered to it after the call", ep, uerr)

		return
	}
	for _, d := range n.Deliv {
		if d.Ep == ep && d.At >= cutAt {
			rc.Violate("harness", "a datagram reached %s during the silence (t=%v)", ep, d.At)

			return
		}
	}
	// the endpoint's control datagrams (everything shorter than an application record) by instant
	var ctrl []time.Duration
	for _, em := range n.EmitsOf(ep)[before:] {
		if len(em.Data) >= appSize {
			continue
		}
		if len(ctrl) == 0 || ctrl[len(ctrl)-1] != em.At {
			ctrl = append(ctrl, em.At)
		}
	}
	what := fmt.Sprintf("%s (post, I=%v, backoff=%v, application writing every %d ms, one-way=%v)", ep, I, !p.NoBack, p.TickMs, p.OneWay)
	if len(ctrl) == 0 {
		rc.Violate("timer-law", "%s: UpdateKeys was called at about t=%v and no KeyUpdate record left the endpoint in %v", what, cutAt, end-cutAt)

		return
	}
	t0 := ctrl[0]
	gap, next, k := I, ctrl[0], 0
	for {
		next += gap
		if next > end-time.Millisecond {
			break
		}
		k++
		if k >= len(ctrl) {
			rc.Violate("timer-law", "%s: KeyUpdate first sent at t=%v; retransmission #%d was due at t=%v and none had been sent when the run ended at t=%v (nothing was delivered to the endpoint in between)", what, t0, k, next, end)

			return
		}
		if ctrl[k] != next {
			rc.Violate("timer-law", "%s: KeyUpdate first sent at t=%v; retransmission #%d at t=%v, the law puts it at t=%v", what, t0, k, ctrl[k], next)

			return
		}
		if !p.NoBack {
			gap *= 2
			if gap > 60*time.Second {
				gap = 60 * time.Second
			}
		}
	}
	if k+1 < len(ctrl) && ctrl[k+1] <= end-time.Millisecond {
		rc.Violate("timer-law", "%s: KeyUpdate first sent at t=%v; an extra control datagram left the endpoint at t=%v, between retransmission #%d and the next one the law allows (t=%v)", what, t0, ctrl[k+1], k, next)

		return
	}
	if k > 0 {
		s.Probe("timer-law-checked")
		s.Probe("post-handshake-law-checked")
		if p.TickMs > 0 && time.Duration(p.TickMs)*time.Millisecond < I {
			s.Probe("post-handshake-law-under-application-writes-checked")
		}
		if gap >= 60*time.Second && !p.NoBack {
			s.Probe("backoff-reached-60s-cap")
		}
	}
}
