package verifsim

import (
	"bytes"
	"encoding/gob"
	"fmt"
	"math/rand/v2"
	"time"

	dtls "github.com/pion/dtls/v3"
)

// C19: exported state resumes the same session without reusing record numbers;
// corrupted bytes are rejected or yield a connection that cannot authenticate.

type C19Params struct {
	Cfg      string `json:"cfg"`
	Side     string `json:"side"`              // exporting side: c | s
	I        int    `json:"i"`                 // records sent by the exporter before export
	J        int    `json:"j"`                 // records sent by the peer before export
	Corrupt  string `json:"corrupt,omitempty"` // "", trunc, flip, seqmax, epochmax
	Arg      int    `json:"arg,omitempty"`
	InFlight bool   `json:"inflight,omitempty"` // a peer datagram is still in flight at export/crash
	// EarlyState: the application also reads ConnectionState() (and the exporter) right after the
	// handshake and again after half of the pre-export records, as one does for keying material;
	// the state that is serialised later must still be the state at that later moment
	EarlyState bool   `json:"early_state,omitempty"`
	Enum       string `json:"enum,omitempty"`
}

// mirror of the serialised form (gob matches by field name)
type c19Version struct{ Major, Minor uint8 }
type c19Serialized struct {
	Version               c19Version
	LocalEpoch            uint16
	RemoteEpoch           uint16
	LocalRandom           [32]byte
	RemoteRandom          [32]byte
	CipherSuiteID         uint16
	MasterSecret          []byte
	SequenceNumber        uint64
	SRTPProtectionProfile uint16
	PeerSRTPMKI           []byte
	PeerCertificates      [][]byte
	IdentityHint          []byte
	SessionID             []byte
	LocalConnectionID     []byte
	RemoteConnectionID    []byte
	RRCNegotiated         bool
	IsClient              bool
	NegotiatedProtocol    string
}

func c19Cfgs() []DataCfg {
	var out []DataCfg
	for _, d := range DataCfgs() {
		if d.C.MaxVer == 12 {
			out = append(out, d)
		}
	}
	// negotiated-feature combinations
	c, s := pskPair(suitePSKGCM)
	c.SRTP, s.SRTP = []uint16{1, 2}, []uint16{2, 1}
	c.MKI, s.MKI = "", ""
	c.ALPN, s.ALPN = []string{"a", "b"}, []string{"b"}
	out = append(out, DataCfg{Name: "12-psk-gcm-srtp-alpn", C: c, S: s})
	c, s = certPair12(suiteECDSAGCM, "srv-ecdsa")
	c.Cert, s.ClientAuth, s.UseRoots, s.VerifyPeer = "cli-ecdsa", int(dtls.RequireAndVerifyClientCert), 1, true
	c.Store, s.Store = "cstore", "sstore"
	out = append(out, DataCfg{Name: "12-ecdsa-gcm-clientcert-store", C: c, S: s})
	c, s = pskPair(suitePSKGCM)
	c.CIDLen, s.CIDLen, c.CIDTag, s.CIDTag = 0, 6, 1, 2 // client only sends a CID
	out = append(out, DataCfg{Name: "12-psk-gcm-cid-sendonly-c", C: c, S: s})
	c, s = pskPair(suitePSKGCM)
	c.CIDLen, s.CIDLen, c.CIDTag, s.CIDTag = 5, 0, 1, 2
	out = append(out, DataCfg{Name: "12-psk-gcm-cid-sendonly-s", C: c, S: s})
	c, s = pair13(suite13AES128)
	out = append(out, DataCfg{Name: "13-aes128", C: c, S: s})

	return out
}

func c19CfgByName(n string) (DataCfg, bool) {
	for _, d := range c19Cfgs() {
		if d.Name == n {
			return d, true
		}
	}

	return DataCfg{}, false
}

const c19MaxIJ = 4

func c19Counts(tier string) (int, int) {
	n := len(c19Cfgs()) * 2 * (c19MaxIJ + 1) * (c19MaxIJ + 1)
	if tier == "thorough" {
		return n, 100000000
	}

	return n, 10000000
}

func c19Gen(r *rand.Rand, tier string, idx int) any {
	cfgs := c19Cfgs()
	p := &C19Params{}
	space := len(cfgs) * 2 * (c19MaxIJ + 1) * (c19MaxIJ + 1)
	if idx < space {
		p.Cfg = cfgs[idx%len(cfgs)].Name
		k := idx / len(cfgs)
		p.Side = []string{"c", "s"}[k%2]
		k /= 2
		p.I = k % (c19MaxIJ + 1)
		p.J = k / (c19MaxIJ + 1)
		p.Enum = "export after every prefix (i,j) of records, i,j<=4, either side, every DTLS 1.2 configuration"

		return p
	}
	p.Cfg = cfgs[r.IntN(len(cfgs))].Name
	p.Side = []string{"c", "s"}[r.IntN(2)]
	p.I, p.J = r.IntN(12), r.IntN(12)
	p.InFlight = r.IntN(3) == 0
	p.EarlyState = r.IntN(2) == 0
	switch r.IntN(8) {
	case 0, 1:
		p.Corrupt, p.Arg = "trunc", r.IntN(1<<16)
	case 2, 3, 4:
		p.Corrupt, p.Arg = "flip", r.IntN(1<<20)
	case 5:
		p.Corrupt = []string{"seqmax", "exhaust"}[r.IntN(2)]
	case 6:
		p.Corrupt, p.Arg = "field", r.IntN(64)
	}

	return p
}

func c19Run(rc *RunCtx, params any) {
	p := params.(*C19Params)
	s := rc.S
	cfg, ok := c19CfgByName(p.Cfg)
	if !ok {
		rc.Violate("harness", "unknown cfg %q", p.Cfg)

		return
	}
	rc.R.Class = cfg.Name + "/" + p.Side + "/" + p.Corrupt
	env := &Env{Stores: map[string]dtls.SessionStore{"cstore": NewSimStore(s, "cstore", 0), "sstore": NewSimStore(s, "sstore", 0)}}
	n := NewSimNet(s, NetRules{})
	pair, err := NewPair(s, n, cfg.C, cfg.S, env)
	if err != nil {
		rc.Violate("harness", "config: %v", err)

		return
	}
	defer func() {
		s.Policy.Active = false
		n.CloseAll()
		s.Drain(func() bool { return s.OpsLive() == 0 }, 20*time.Second)
	}()
	if !pair.Establish(60 * time.Second) {
		rc.Violate("harness-establish", "clean handshake failed: c=%v s=%v", pair.CHs.Err, pair.SHs.Err)

		return
	}
	rdC, rdS := pair.StartReader("c"), pair.StartReader("s")
	readers := map[string]*Reader{"c": rdC, "s": rdS}
	peer := map[string]string{"c": "s", "s": "c"}[p.Side]
	s.Run(func() bool { return false }, 3*time.Second)
	wrote := map[string][][]byte{}
	write := func(ep string, conn *dtls.Conn, k int) error {
		pl := Payload(ep, 0, k, 24)
		wrote[ep] = append(wrote[ep], pl)
		var done bool
		var werr error
		s.Go(ep+"-write", func() { _, werr = conn.Write(pl); done = true })
		s.Run(func() bool { return done }, 10*time.Second)
		if !done {
			return fmt.Errorf("write did not return")
		}

		return werr
	}
	peekState := func() {
		if st0, ok0 := pair.ConnOf(p.Side).ConnectionState(); ok0 {
			_, _ = st0.ExportKeyingMaterial("EXTRACTOR-verif", nil, 16)
			s.Probe("state-read-before-export")
		}
	}
	if p.EarlyState {
		peekState()
	}
	for k := 0; k < p.I; k++ {
		if p.EarlyState && k == p.I/2 && k > 0 {
			peekState()
		}
		if err := write(p.Side, pair.ConnOf(p.Side), k); err != nil {
			rc.Violate("harness-write", "pre-export write: %v", err)

			return
		}
	}
	for k := 0; k < p.J; k++ {
		if err := write(peer, pair.ConnOf(peer), k); err != nil {
			rc.Violate("harness-write", "pre-export write: %v", err)

			return
		}
	}
	if !p.InFlight {
		s.Run(func() bool { return len(readers[peer].Got) == p.I && len(readers[p.Side].Got) == p.J }, 5*time.Second)
	}
	if p.Corrupt == "exhaust" && cfg.C.MaxVer == 12 {
		// the exporter uses up its epoch: its record number jumps to 2^48-2 (for the peer: a long run
		// of lost records), two more records go out, the next Write must be refused
		conn := pair.ConnOf(p.Side)
		cur := dtls.VerifLocalSeq(conn)
		if len(cur) < 2 {
			rc.Violate("harness", "no epoch-1 counter")

			return
		}
		dtls.VerifSkipLocalSeq(conn, (1<<48-2)-cur[1])
		for k := 0; k < 2; k++ {
			if err := write(p.Side, conn, 50+k); err != nil {
				rc.Violate("seq-exhaust-early", "write with record number 2^48-%d refused: %v", 2-k, err)

				return
			}
		}
		if err := write(p.Side, conn, 52); err == nil {
			rc.Violate("seq-wrap", "a Write after record number 2^48-1 succeeded (must fail rather than wrap)")

			return
		}
		wrote[p.Side] = wrote[p.Side][:len(wrote[p.Side])-1]
		s.Run(func() bool { return false }, time.Second)
		s.Probe("epoch-exhausted-before-export")
	}
	// ---- export ----
	old := pair.ConnOf(p.Side)
	st, okState := old.ConnectionState()
	if !okState {
		rc.Violate("no-state", "ConnectionState() unavailable on an established connection")

		return
	}
	is13 := cfg.C.MaxVer == 13
	raw, err := st.MarshalBinary()
	if is13 {
		if err == nil {
			var st2 dtls.State
			if uerr := st2.UnmarshalBinary(raw); uerr == nil {
				rc.Violate("13-state-accepted", "a DTLS 1.3 connection state was serialised and re-imported without error")
			}
		}
		s.Probe("13-state-refused")

		return
	}
	if err != nil {
		rc.Violate("marshal-failed", "MarshalBinary on an established DTLS 1.2 connection: %v", err)

		return
	}
	ekmBefore, _ := st.ExportKeyingMaterial("EXTRACTOR-verif", nil, 40)
	// ---- crash ----
	oldSock := pair.CSock
	if p.Side == "s" {
		oldSock = pair.SSock
	}
	oldSock.Sever()
	emittedBefore := n.EmitsOf(p.Side)
	// ---- corrupt ----
	expectUsable := true
	switch p.Corrupt {
	case "trunc":
		raw = raw[:p.Arg%len(raw)]
		expectUsable = false
	case "flip":
		bit := p.Arg % (len(raw) * 8)
		raw = append([]byte(nil), raw...)
		raw[bit/8] ^= 1 << (bit % 8)
		expectUsable = false
	case "seqmax", "field":
		var m c19Serialized
		if derr := gob.NewDecoder(bytes.NewReader(raw)).Decode(&m); derr != nil {
			rc.Violate("harness-gob", "mirror decode: %v", derr)

			return
		}
		if p.Corrupt == "seqmax" {
			m.SequenceNumber = 1<<48 - 3
		} else {
			expectUsable = false
			switch p.Arg % 8 {
			case 0:
				m.LocalEpoch = 0xffff
			case 1:
				m.RemoteEpoch = 0xffff
			case 2:
				m.CipherSuiteID = 0x1301
			case 3:
				m.MasterSecret = nil
			case 4:
				m.Version = c19Version{0xfe, 0xfc}
			case 5:
				m.LocalEpoch = 0
			case 6:
				m.CipherSuiteID = 0xffff
			case 7:
				m.MasterSecret = m.MasterSecret[:len(m.MasterSecret)/2]
			}
		}
		var buf bytes.Buffer
		if eerr := gob.NewEncoder(&buf).Encode(m); eerr != nil {
			rc.Violate("harness-gob", "mirror encode: %v", eerr)

			return
		}
		raw = buf.Bytes()
	}
	// ---- restart ----
	var st2 dtls.State
	if uerr := st2.UnmarshalBinary(raw); uerr != nil {
		if expectUsable {
			rc.Violate("import-rejected", "UnmarshalBinary rejected an unmodified export: %v", uerr)
		}
		s.Probe("corrupt-rejected-by-unmarshal")
		rc.R.NonTriv = true

		return
	}
	addrSelf, addrPeer := pair.CAddr, pair.SAddr
	if p.Side == "s" {
		addrSelf, addrPeer = pair.SAddr, pair.CAddr
	}
	newName := p.Side + "2"
	newSock := n.Rebind(newName, addrSelf)
	resumed, rerr := dtls.ResumeWithOptions(&st2, newSock, addrPeer, env.Shared[p.Side]...)
	if rerr != nil {
		if expectUsable {
			rc.Violate("resume-failed", "ResumeWithOptions failed on an unmodified export: %v", rerr)
		}
		s.Probe("corrupt-rejected-by-resume")
		rc.R.NonTriv = true

		return
	}
	var hsDone bool
	var hsErr error
	s.Go(newName+"-handshake", func() { hsErr = resumed.Handshake(); hsDone = true })
	s.Run(func() bool { return hsDone }, 30*time.Second)
	if !hsDone || hsErr != nil {
		if expectUsable {
			rc.Violate("resume-handshake", "Handshake() on the resumed connection: done=%v err=%v", hsDone, hsErr)
		}
		_ = resumed.Close()

		return
	}
	// reader on the resumed connection
	rdNew := &Reader{Ep: newName}
	s.Go(newName+"-reader", func() {
		buf := make([]byte, 8192)
		for {
			k, err := resumed.Read(buf)
			if err != nil {
				rdNew.Err, rdNew.Done = err, true

				return
			}
			rdNew.Got = append(rdNew.Got, append([]byte(nil), buf[:k]...))
			s.Record("read", newName, preview(buf[:k]), nil)
		}
	})
	basePeerGot := len(readers[peer].Got)
	nAfter := 3
	var postErrs []error
	if p.Corrupt == "exhaust" {
		// nothing may be written by the resumed endpoint any more; the peer's direction still works
		for k := 0; k < 2; k++ {
			if err := write(p.Side, resumed, 100+k); err == nil {
				rc.Violate("seq-wrap", "the connection resumed from a state whose epoch was exhausted accepted a Write")

				return
			}
			wrote[p.Side] = wrote[p.Side][:len(wrote[p.Side])-1]
		}
		mon := NewNonceMonitor()
		peerCID := len(cfg.S.CIDOf())
		if p.Side == "s" {
			peerCID = len(cfg.C.CIDOf())
		}
		for _, em := range emittedBefore {
			_ = mon.Feed(em, peerCID)
		}
		for _, em := range n.EmitsOf(newName) {
			em.Ep = p.Side
			em.Idx += 1 << 20
			if ferr := mon.Feed(em, peerCID); ferr != nil {
				rc.Violate("nonce-reuse-after-import", "%v", ferr)

				return
			}
		}
		s.Probe("exhausted-epoch-stays-exhausted-after-import")
		rc.R.NonTriv = true
		_ = resumed.Close()

		return
	}
	for k := 0; k < nAfter; k++ {
		if err := write(p.Side, resumed, 100+k); err != nil {
			postErrs = append(postErrs, err)
		}
		if err := write(peer, pair.ConnOf(peer), 100+k); err != nil {
			postErrs = append(postErrs, err)
		}
	}
	extraWriteErr := error(nil)
	if p.Corrupt == "seqmax" {
		extraWriteErr = write(p.Side, resumed, 200)
	}
	s.Run(func() bool { return len(readers[peer].Got) >= basePeerGot+nAfter && len(rdNew.Got) >= nAfter }, 5*time.Second)
	// ---- oracles ----
	// (1) nothing but genuine payloads anywhere
	isWritten := func(ep string, pl []byte) bool {
		for _, w := range wrote[ep] {
			if bytes.Equal(w, pl) {
				return true
			}
		}

		return false
	}
	for _, g := range readers[peer].Got {
		if !isWritten(p.Side, g) {
			rc.Violate("wrong-data", "peer %s read a payload %s never written", peer, preview(g))

			return
		}
	}
	for _, g := range rdNew.Got {
		if !isWritten(peer, g) {
			rc.Violate("wrong-data", "resumed endpoint read a payload %s never written", preview(g))

			return
		}
	}
	// (2) numbers continue without reuse (legacy headers are readable)
	mon := NewNonceMonitor()
	peerCID := len(cfg.S.CIDOf())
	if p.Side == "s" {
		peerCID = len(cfg.C.CIDOf())
	}
	for _, em := range emittedBefore {
		_ = mon.Feed(em, peerCID)
	}
	for _, em := range n.EmitsOf(newName) {
		em.Ep = p.Side
		em.Idx += 1 << 20
		// (corrupted state is only required to be rejected or harmless, see (1))
		if ferr := mon.Feed(em, peerCID); ferr != nil && (expectUsable || p.Corrupt == "seqmax") {
			rc.Violate("nonce-reuse-after-import", "%v", ferr)

			return
		}
	}
	if p.Corrupt == "seqmax" {
		if extraWriteErr == nil {
			rc.Violate("seq-wrap", "write number 4 after importing sequence number 2^48-3 succeeded (must fail rather than wrap)")

			return
		}
		for _, em := range n.EmitsOf(newName) {
			recs, _ := ParseDatagram(em.Data, peerCID)
			for _, r := range recs {
				if !r.Unified && r.Epoch >= 1 && r.Seq < 1<<47 {
					rc.Violate("seq-wrap", "record with wrapped sequence number %d emitted after importing 2^48-3", r.Seq)

					return
				}
			}
		}
		s.Probe("seq-overflow-refused")
		rc.R.NonTriv = true

		return
	}
	if !expectUsable {
		// corrupted but accepted: records must not authenticate at the peer — covered by (1); count it
		s.Probe("corrupt-accepted-but-harmless")
		rc.R.NonTriv = true

		return
	}
	// (3) the session continues in both directions
	if len(postErrs) > 0 {
		rc.Violate("post-import-write", "write after import failed: %v", postErrs[0])

		return
	}
	if got := len(readers[peer].Got) - basePeerGot; got < nAfter {
		rc.Violate("no-flow-to-peer", "after import only %d of %d payloads reached %s (exporter had sent %d, received %d before export)", got, nAfter, peer, p.I, p.J)

		return
	}
	if len(rdNew.Got) < nAfter {
		rc.Violate("no-flow-from-peer", "after import only %d of %d payloads from %s were read by the resumed endpoint", len(rdNew.Got), nAfter, peer)

		return
	}
	// (4) same keying material and parameters
	st3, ok3 := resumed.ConnectionState()
	if !ok3 {
		rc.Violate("no-state", "ConnectionState() unavailable on the resumed connection")

		return
	}
	ekmAfter, _ := st3.ExportKeyingMaterial("EXTRACTOR-verif", nil, 40)
	if !bytes.Equal(ekmBefore, ekmAfter) || len(ekmAfter) == 0 {
		rc.Violate("ekm-differs", "exported keying material differs after import")

		return
	}
	if st.CipherSuiteID != st3.CipherSuiteID || st.NegotiatedProtocol != st3.NegotiatedProtocol || !bytes.Equal(st.SessionID, st3.SessionID) ||
		!bytes.Equal(st.IdentityHint, st3.IdentityHint) || len(st.PeerCertificates) != len(st3.PeerCertificates) {
		rc.Violate("params-differ", "negotiated parameters differ after import: suite %v/%v alpn %q/%q", st.CipherSuiteID, st3.CipherSuiteID, st.NegotiatedProtocol, st3.NegotiatedProtocol)

		return
	}
	for i := range st.PeerCertificates {
		if !bytes.Equal(st.PeerCertificates[i], st3.PeerCertificates[i]) {
			rc.Violate("params-differ", "peer certificate %d differs after import", i)

			return
		}
	}
	p1, ok1 := old.SelectedSRTPProtectionProfile()
	p2, ok2 := resumed.SelectedSRTPProtectionProfile()
	if p1 != p2 || ok1 != ok2 {
		rc.Violate("params-differ", "SRTP profile differs after import: %v/%v", p1, p2)

		return
	}
	rc.R.NonTriv = p.I+p.J > 0
	s.Probe("resumed-session-continues")
	s.Go("close-resumed", func() { _ = resumed.Close() })
}

func init() {
	Register(&Scenario{
		ID:        "C19",
		Counts:    c19Counts,
		Gen:       c19Gen,
		NewParams: func() any { return &C19Params{} },
		Run:       c19Run,
	})
}
