package verifsim

import (
	"bytes"
	"context"
	"errors"
	"fmt"
	"math/rand/v2"
	"sort"
	"time"

	dtls "github.com/pion/dtls/v3"
)

// C20: DTLS 1.3 key updates keep data exactly-once and epochs monotonic.

type C20Params struct {
	Cfg       string   `json:"cfg"`
	UpdatesC  int      `json:"updates_c"`
	UpdatesS  int      `json:"updates_s"`
	Updaters  int      `json:"updaters"` // goroutines issuing the updates per side
	Request   int      `json:"request"`  // 0 never, 1 always, 2 mixed: RequestPeerUpdate
	WritersC  int      `json:"writers_c"`
	WritersS  int      `json:"writers_s"`
	PerWriter int      `json:"per_writer"`
	ParkPm    int      `json:"park_pm"`
	Rules     NetRules `json:"rules"`
	Replay    int      `json:"replay"` // delayed duplicates of earlier datagrams re-delivered at the end
	ForgeNext bool     `json:"forge_next"`
	// LongEpoch: before the workload each side's record number is advanced past 2^16 in three
	// steps of 30000 (as if that many records had been lost), one delivered record after each step
	LongEpoch bool `json:"long_epoch,omitempty"`
	// TickMs: if set, one more writer per side keeps writing every TickMs milliseconds for as long
	// as updates are in progress (an application that never pauses longer than that)
	TickMs int `json:"tick_ms,omitempty"`
	// ForgeAck: that many cleartext (epoch 0) ACK records naming record numbers 0..31 of the
	// epochs a KeyUpdate can be sent under are injected into each side at drawn times during the
	// workload - what anybody who can spoof the peer's address can send without any key
	ForgeAck int `json:"forge_ack,omitempty"`
	// ShortCtx: every other UpdateKeys call gets a context that expires after ShortCtxMs - a
	// caller that gives up while the KeyUpdate or its ACK is being lost. The update itself is
	// not undone by that (the message has consumed its message_seq and may have been processed).
	ShortCtxMs int `json:"short_ctx_ms,omitempty"`
}

func c20Counts(tier string) (int, int) {
	if tier == "thorough" {
		return 0, 100000000
	}

	return 0, 10000000
}

func c20Gen(r *rand.Rand, tier string, idx int) any {
	cfgs := []string{"13-aes128", "13-chacha", "13-aes256-cid"}
	p := &C20Params{Cfg: cfgs[r.IntN(3)], UpdatesC: r.IntN(5), UpdatesS: r.IntN(5), Updaters: 1 + r.IntN(2), Request: r.IntN(3),
		WritersC: 1 + r.IntN(3), WritersS: 1 + r.IntN(3), PerWriter: 1 + r.IntN(5), ParkPm: []int{0, 0, 200, 500}[r.IntN(4)],
		Replay: []int{0, 0, 4, 12}[r.IntN(4)], ForgeNext: r.IntN(2) == 0, LongEpoch: r.IntN(3) == 0}
	if r.IntN(3) == 0 {
		p.TickMs = []int{5, 20, 100, 400}[r.IntN(4)]
	}
	if r.IntN(4) == 0 {
		p.ForgeAck = 1 + r.IntN(12)
	}
	if r.IntN(3) == 0 {
		p.ShortCtxMs = []int{1, 5, 30, 200, 1100, 2500}[r.IntN(6)]
	}
	if r.IntN(3) != 0 {
		p.Rules = NetRules{DropPm: 30 + r.IntN(250), DupPm: r.IntN(150), HoldPm: r.IntN(150), FaultsUntilNs: int64(time.Second) * int64(1+r.IntN(20)),
			HoldMaxNs: int64(time.Millisecond) * int64(10+r.IntN(2500))}
	}

	return p
}

func c20Run(rc *RunCtx, params any) {
	p := params.(*C20Params)
	s := rc.S
	cfg, ok := dataCfgByName(p.Cfg)
	if !ok {
		rc.Violate("harness", "unknown cfg")

		return
	}
	rc.R.Class = cfg.Name
	rc.R.NonTriv = true
	rc.Note("proto", "dtls13")
	n := NewSimNet(s, NetRules{})
	pair, err := NewPair(s, n, cfg.C, cfg.S, nil)
	if err != nil {
		rc.Violate("harness", "config: %v", err)

		return
	}
	defer pair.Teardown()
	if !pair.Establish(time.Minute) {
		rc.Note("not-established", "")

		return
	}
	s.Run(func() bool { return false }, 3*time.Second)
	rdC, rdS := pair.StartReader("c"), pair.StartReader("s")
	written := map[string][][]byte{}
	if p.LongEpoch {
		for step := 0; step < 3; step++ {
			for _, ep := range []string{"c", "s"} {
				dtls.VerifSkipLocalSeq(pair.ConnOf(ep), 30000)
				pl := Payload(ep, 7, step, 24)
				written[ep] = append(written[ep], pl)
				if err := pair.WriteSync(ep, pl, 10*time.Second); err != nil {
					rc.Violate("harness-write", "write after skipping record numbers: %v", err)

					return
				}
			}
			s.Run(func() bool { return len(rdS.Got) > step && len(rdC.Got) > step }, 5*time.Second)
		}
		if len(rdS.Got) != 3 || len(rdC.Got) != 3 {
			rc.Violate("lost-after-gap", "after gaps of 30000 record numbers (indistinguishable from that many lost records) the server read %d of 3 and the client %d of 3 payloads on a loss-free link", len(rdS.Got), len(rdC.Got))

			return
		}
		s.Probe("record-numbers-beyond-2^16")
	}
	t0 := s.Now()
	rules := p.Rules
	if rules.FaultsUntilNs > 0 {
		rules.FaultsUntilNs += int64(t0)
	}
	rules.BaseLatencyNs, rules.JitterNs = int64(5*time.Millisecond), int64(time.Millisecond)
	if rules.HoldMaxNs == 0 {
		rules.HoldMaxNs = int64(time.Second)
	}
	n.Rules = rules
	dataFrom := len(n.Emits)
	s.Policy = SchedPolicy{ParkPermille: p.ParkPm, Active: p.ParkPm > 0}
	type upd struct {
		ep      string
		done    bool
		err     error
		retSeq  uint64
		callSeq uint64
		short   bool
	}
	var upds []*upd
	live := 0
	for _, side := range []struct {
		ep      string
		writers int
		updates int
	}{{"c", p.WritersC, p.UpdatesC}, {"s", p.WritersS, p.UpdatesS}} {
		conn := pair.ConnOf(side.ep)
		for w := 0; w < side.writers; w++ {
			ep, w := side.ep, w
			var pls [][]byte
			for k := 0; k < p.PerWriter; k++ {
				pl := Payload(ep, w, k, 20+k)
				pls = append(pls, pl)
				written[ep] = append(written[ep], pl)
			}
			live++
			s.Go(fmt.Sprintf("%s-writer%d", ep, w), func() {
				defer func() { live-- }()
				for i, pl := range pls {
					if _, err := conn.Write(pl); err != nil {
						s.Record("write-err", ep, err.Error(), nil)

						return
					}
					s.Sleep(time.Duration(1+(i*7+w*3)%9) * time.Millisecond)
				}
			})
		}
		for g := 0; g < p.Updaters; g++ {
			ep, g := side.ep, g
			count := side.updates / p.Updaters
			if g < side.updates%p.Updaters {
				count++
			}
			if count == 0 {
				continue
			}
			live++
			s.Go(fmt.Sprintf("%s-updater%d", ep, g), func() {
				defer func() { live-- }()
				for k := 0; k < count; k++ {
					u := &upd{ep: ep}
					upds = append(upds, u)
					req := p.Request == 1 || (p.Request == 2 && (k+g)%2 == 0)
					to := 3 * time.Minute
					if p.ShortCtxMs > 0 && (k+g)%2 == 0 {
						to, u.short = time.Duration(p.ShortCtxMs)*time.Millisecond, true
					}
					ctx, cancel := context.WithTimeout(context.Background(), s.Uniq(to))
					u.callSeq = s.Record("op-call", ep, fmt.Sprintf("UpdateKeys request=%v timeout=%v", req, to), nil)
					u.err = conn.UpdateKeys(ctx, dtls.KeyUpdateOptions{RequestPeerUpdate: req})
					cancel()
					u.retSeq = s.Record("op-ret", ep, fmt.Sprintf("UpdateKeys err=%v", u.err), nil)
					u.done = true
					s.Sleep(time.Duration(2+k) * time.Millisecond)
				}
			})
		}
	}
	for i := 0; i < p.ForgeAck; i++ {
		d := s.Ch.Draw("forge-ack", func(r *rand.Rand) Dec { return Dec{A: int64(r.IntN(2)), B: r.Int64N(int64(3 * time.Second))} })
		i := i
		s.After(time.Duration(d.B)+time.Duration(i)*time.Microsecond, func() {
			var body []byte
			for e := uint64(3); e <= 10; e++ {
				for q := uint64(0); q < 32; q++ {
					body = append(body, u64(e)...)
					body = append(body, u64(q)...)
				}
			}
			rec := []byte{byte(CTACK), 0xfe, 0xfd, 0, 0}
			rec = append(rec, u64(uint64(0x300000 + i))[2:]...)
			rec = append(rec, byte((len(body)+2)>>8), byte(len(body)+2), byte(len(body)>>8), byte(len(body)))
			rec = append(rec, body...)
			s.Fault("forged-cleartext-ack")
			if d.A == 0 {
				n.InjectNow(pair.SAddr, pair.CAddr, rec)
			} else {
				n.InjectNow(pair.CAddr, pair.SAddr, rec)
			}
		})
	}
	tickStop := false
	if p.TickMs > 0 {
		for _, ep := range []string{"c", "s"} {
			ep := ep
			conn := pair.ConnOf(ep)
			s.Go(ep+"-ticker", func() {
				for k := 0; !tickStop && k < 4000; k++ {
					pl := Payload(ep, 8, k, 16)
					written[ep] = append(written[ep], pl)
					if _, err := conn.Write(pl); err != nil {
						return
					}
					s.Sleep(time.Duration(p.TickMs) * time.Millisecond)
				}
			})
		}
	}
	s.Run(func() bool { return live == 0 }, 8*time.Minute)
	tickStop = true
	stuck := live != 0
	for _, u := range upds {
		// the link is reliable at the latest 20 s after the workload began: an update that has not
		// been acknowledged three minutes after it was requested is not going to be
		isDeadline := u.err != nil && (errors.Is(u.err, context.DeadlineExceeded) || contains(u.err.Error(), "deadline"))
		if u.done && u.err != nil && !isDeadline {
			// nobody closes these connections and nothing the network does to datagrams is a reason
			// to fail an update with anything but the caller's own deadline
			rc.Violate("update-failed", "%s: UpdateKeys failed with %q (not the caller's deadline) on a connection nobody closed", u.ep, u.err)

			return
		}
		if u.short {
			if isDeadline {
				s.Probe("update-abandoned-by-caller")
			}

			continue
		}
		if u.done && u.err != nil && (errors.Is(u.err, context.DeadlineExceeded) || contains(u.err.Error(), "deadline")) {
			rc.Violate("update-never-completed", "%s: UpdateKeys gave up after three minutes on a link that had been reliable for more than two of them (writers ticking every %d ms): %v", u.ep, p.TickMs, u.err)

			return
		}
	}
	n.MakeReliable()
	s.Policy.Active = false
	s.Run(func() bool { return false }, 5*time.Second)
	// aftermath: on the now reliable link each side updates once more and writes one more payload:
	// whatever happened to earlier updates (lost, abandoned by their callers, acknowledged late),
	// the connection must still be able to do both
	if !stuck {
		for _, ep := range []string{"c", "s"} {
			ep := ep
			conn := pair.ConnOf(ep)
			var aerr error
			adone := false
			s.Go(ep+"-aftermath", func() {
				ctx, cancel := context.WithTimeout(context.Background(), s.Uniq(4*time.Minute))
				defer cancel()
				aerr = conn.UpdateKeys(ctx, dtls.KeyUpdateOptions{})
				adone = true
			})
			s.Run(func() bool { return adone }, 5*time.Minute)
			if !adone || aerr != nil {
				rc.Violate("update-failed-after-heal", "%s: an UpdateKeys issued on the healed link (5 s after the last fault, %d earlier updates on this side, caller timeout of every other one %d ms) did not succeed within four minutes: done=%v err=%v", ep, map[string]int{"c": p.UpdatesC, "s": p.UpdatesS}[ep], p.ShortCtxMs, adone, aerr)

				return
			}
			pl := Payload(ep, 9, 0, 28)
			written[ep] = append(written[ep], pl)
			if werr := pair.WriteSync(ep, pl, 10*time.Second); werr != nil {
				rc.Violate("write-failed-after-heal", "%s: Write after the final update: %v", ep, werr)

				return
			}
			rd := rdS
			if ep == "s" {
				rd = rdC
			}
			got := func() bool {
				for _, g := range rd.Got {
					if bytes.Equal(g, pl) {
						return true
					}
				}

				return false
			}
			if !s.Run(got, 10*time.Second) && !got() {
				rc.Violate("lost-after-heal", "the payload %s wrote after its final key update on the healed link was not delivered within 10 s", ep)

				return
			}
		}
		s.Probe("aftermath-update-and-write-checked")
	}
	// delayed duplicates of earlier data-phase datagrams
	if p.Replay > 0 && len(n.Emits) > dataFrom {
		for i := 0; i < p.Replay; i++ {
			d := s.Ch.Draw("replay", func(r *rand.Rand) Dec { return Dec{A: int64(r.IntN(1 << 30))} })
			em := n.Emits[dataFrom+int(d.A)%(len(n.Emits)-dataFrom)]
			from, to := pair.CAddr, pair.SAddr
			if em.Ep == "s" {
				from, to = pair.SAddr, pair.CAddr
			}
			s.Fault("late-duplicate")
			n.InjectNow(from, to, append([]byte(nil), em.Data...))
			s.Settle()
		}
		s.Run(func() bool { return false }, time.Second)
	}
	// ---- reference view ----
	cst, _ := pair.Client.ConnectionState()
	suite := uint16(cst.CipherSuiteID)
	cw, _ := dtls.VerifTrafficSecrets(pair.Client)
	sw, _ := dtls.VerifTrafficSecrets(pair.Server)
	// a record under the not yet authorised next epoch must never be delivered
	if p.ForgeNext {
		for _, from := range []string{"c", "s"} {
			secs, rd, cid := cw, rdS, cfg.S.CIDOf()
			fa, ta := pair.CAddr, pair.SAddr
			if from == "s" {
				secs, rd, cid = sw, rdC, cfg.C.CIDOf()
				fa, ta = pair.SAddr, pair.CAddr
			}
			// "authorised" is the receiver's business: it installs the next read epoch when it
			// processes the peer's KeyUpdate, which may be before the sender (still waiting for
			// the ACK) starts using it. The forgery therefore targets the epoch after the newest
			// one the receiver holds read keys for.
			_, recvRead := dtls.VerifTrafficSecrets(pair.ConnOf(map[string]string{"c": "s", "s": "c"}[from]))
			top := uint16(0)
			for e := range recvRead {
				if e > top {
					top = e
				}
			}
			if top < 3 {
				continue
			}
			secs = recvRead
			next := NextSecret13(suite, secs[top])
			keys, _ := NewKeys13(suite, next)
			pl := []byte("forged-under-an-epoch-nobody-authorised")
			before := len(rd.Got)
			n.InjectNow(fa, ta, keys.Seal13(top+1, 0, cid, CTAppData, pl, 0))
			s.Settle()
			for _, g := range rd.Got[before:] {
				if bytes.Equal(g, pl) {
					rc.Violate("future-epoch-accepted", "a record protected under epoch %d was delivered by Read although the newest epoch the receiver had been authorised to read (by a KeyUpdate it processed) is %d", top+1, top)

					return
				}
			}
			s.Probe("future-epoch-record-rejected")
		}
	}
	// successor law
	for name, secs := range map[string]map[uint16][]byte{"client": cw, "server": sw} {
		for e, sec := range secs {
			if e < 3 {
				continue
			}
			if nx, ok := secs[e+1]; ok {
				if !bytes.Equal(nx, NextSecret13(suite, sec)) {
					rc.Violate("successor-law", "%s write secret of epoch %d is not HKDF-Expand-Label(secret of epoch %d, \"traffic upd\", \"\", Hash.length)", name, e+1, e)

					return
				}
				s.Probe("traffic-upd-successor-checked")
			}
		}
	}
	// decode everything emitted in the data phase
	dec := map[string]*Decoder13{"c": NewDecoder13(suite, cw), "s": NewDecoder13(suite, sw)}
	if p.LongEpoch {
		// the decoder reconstructs truncated record numbers relative to the last one it saw
		dec["c"].next[3], dec["s"].next[3] = 90003, 90003
	}
	cidToS, cidToC := len(cfg.S.CIDOf()), len(cfg.C.CIDOf())
	type kuRec struct {
		epoch uint16
		seq   uint64
		ep    string
	}
	var keyUpdates []kuRec
	lastEpoch := map[string]uint16{}
	ackedAt := map[kuRec]uint64{} // earliest delivery event seq of an ACK covering the record
	type ackSeen struct {
		from    string
		numbers [][2]uint64
		emitIdx int
	}
	var acks []ackSeen
	for _, em := range n.Emits[dataFrom:] {
		cid := cidToS
		if em.Ep == "s" {
			cid = cidToC
		}
		rs, perr := ParseDatagram(em.Data, cid)
		if perr != nil {
			rc.Violate("wire-parse", "datagram %s#%d: %v", em.Ep, em.Idx, perr)

			return
		}
		for _, r := range rs {
			if !r.Unified {
				continue
			}
			e, ct, plain, sq, oerr := dec[em.Ep].Open(r)
			if oerr != nil {
				rc.Violate("ref-cannot-open", "data-phase record of %s (epoch bits %d) does not open under any secret the sender retains: %v", em.Ep, r.Epoch, oerr)

				return
			}
			if e < lastEpoch[em.Ep] {
				rc.Violate("epoch-decreased", "%s emitted a record of epoch %d after having emitted epoch %d", em.Ep, e, lastEpoch[em.Ep])

				return
			}
			lastEpoch[em.Ep] = e
			switch ct {
			case CTHandshake:
				if len(plain) >= 12 && plain[0] == HTKeyUpdate {
					keyUpdates = append(keyUpdates, kuRec{e, sq, em.Ep})
				}
			case CTACK:
				a := ackSeen{from: em.Ep, emitIdx: em.Idx}
				if len(plain) >= 2 {
					body := plain[2:]
					for i := 0; i+16 <= len(body); i += 16 {
						a.numbers = append(a.numbers, [2]uint64{be(body[i : i+8]), be(body[i+8 : i+16])})
					}
				}
				acks = append(acks, a)
			}
		}
	}
	for _, a := range acks {
		// when was this ACK datagram first delivered to the other side?
		to := "s"
		if a.from == "s" {
			to = "c"
		}
		first := uint64(0)
		for _, d := range n.Deliv {
			if d.Ep == to && d.EmitIdx == a.emitIdx && !d.Injected && (first == 0 || d.Seq < first) {
				first = d.Seq
			}
		}
		if first == 0 {
			continue
		}
		for _, num := range a.numbers {
			for _, ku := range keyUpdates {
				if ku.ep == to && uint64(ku.epoch) == num[0] && ku.seq == num[1] {
					if cur, ok := ackedAt[ku]; !ok || first < cur {
						ackedAt[ku] = first
					}
				}
			}
		}
	}
	// UpdateKeys success needs a delivered ACK of one of the caller's KeyUpdate records before it returned
	for _, ep := range []string{"c", "s"} {
		var rets []uint64
		for _, u := range upds {
			if u.ep == ep && u.done && u.err == nil {
				rets = append(rets, u.retSeq)
			}
		}
		sort.Slice(rets, func(a, b int) bool { return rets[a] < rets[b] })
		for i, ret := range rets {
			acked := 0
			for ku, at := range ackedAt {
				if ku.ep == ep && at < ret {
					acked++
				}
			}
			// the i-th success (in return order) needs at least i+1 acknowledged KeyUpdate records by then;
			// retransmissions of one KeyUpdate may be acknowledged separately, so this is a lower-bound check
			if acked == 0 {
				rc.Violate("update-success-without-ack", "%s: UpdateKeys #%d returned nil at event %d, but no ACK covering any of its KeyUpdate records had been delivered to it by then", ep, i+1, ret)

				return
			}
			// every successful call moved the sending epoch on by one, and a KeyUpdate is sent under
			// the epoch it ends: i+1 successes need genuine ACKs for KeyUpdate records of i+1 epochs
			epochs := map[uint16]bool{}
			for ku, at := range ackedAt {
				if ku.ep == ep && at < ret {
					epochs[ku.epoch] = true
				}
			}
			if len(epochs) < i+1 {
				rc.Violate("update-success-without-ack", "%s: UpdateKeys call #%d (in order of return) returned nil at event %d, but by then ACKs written by the peer had been delivered for KeyUpdate records of only %d epoch(s) (forged cleartext ACKs injected: %d)", ep, i+1, ret, len(epochs), p.ForgeAck)

				return
			}
		}
		if len(rets) > 0 {
			s.Probe("update-success-acked")
		}
	}
	if len(keyUpdates) > 0 {
		s.Probe("keyupdate-on-wire")
	}
	// exactly-once, unmodified; everything written after the faults stopped must arrive
	for _, dir := range []struct {
		rd   *Reader
		from string
	}{{rdS, "c"}, {rdC, "s"}} {
		seen := map[string]int{}
		for _, g := range dir.rd.Got {
			okp := false
			for _, w := range written[dir.from] {
				if bytes.Equal(w, g) {
					okp = true
				}
			}
			if !okp {
				rc.Violate("read-not-written", "a payload read from %s was never written: %s", dir.from, preview(g))

				return
			}
			seen[string(g)]++
			if seen[string(g)] > 1 {
				rc.Violate("delivered-twice", "payload %s from %s was delivered twice (updates c=%d s=%d, late duplicates %d)", preview(g), dir.from, p.UpdatesC, p.UpdatesS, p.Replay)

				return
			}
		}
		if p.Rules.DropPm == 0 && !stuck && len(seen) != len(written[dir.from]) {
			rc.Violate("lost-without-loss", "on a loss-free link %d of %d payloads from %s were delivered (updates c=%d s=%d)", len(seen), len(written[dir.from]), dir.from, p.UpdatesC, p.UpdatesS)

			return
		}
	}
	if stuck {
		rc.Violate("stuck", "writers/updaters still blocked %v after the faults stopped", 8*time.Minute)
	}
}

func init() {
	Register(&Scenario{
		ID:        "C20",
		Counts:    c20Counts,
		Gen:       c20Gen,
		NewParams: func() any { return &C20Params{} },
		Run:       c20Run,
	})
}
