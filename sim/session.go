package verifsim

import (
	"errors"
	"fmt"
	"io"
	"time"

	dtls "github.com/pion/dtls/v3"
)

// Reader drains Conn.Read on one endpoint and records what the application saw.
type Reader struct {
	Ep     string
	Got    [][]byte
	GotSeq []uint64 // global event sequence number of each return
	Errs   []string
	Err    error
	Done   bool
	// Short counts Reads that failed because the application's buffer was smaller than the payload
	Short int
}

// ConnOf returns the Conn of endpoint "c" or "s".
func (p *Pair) ConnOf(ep string) *dtls.Conn {
	if ep == p.CName || ep == "c" {
		return p.Client
	}

	return p.Server
}

// StartReader starts a goroutine that reads until a terminal error.
func (p *Pair) StartReader(ep string) *Reader { return p.StartReaderBuf(ep, 16384) }

// StartReaderBuf is StartReader with an application buffer of the given size.
func (p *Pair) StartReaderBuf(ep string, size int) *Reader {
	r := &Reader{Ep: ep}
	conn := p.ConnOf(ep)
	p.S.Go(ep+"-reader", func() {
		buf := make([]byte, size)
		for {
			n, err := conn.Read(buf)
			if err != nil && contains(err.Error(), "buffer is too small") {
				r.Short++
				p.S.Record("read-short-buffer", ep, err.Error(), nil)

				continue
			}
			if err != nil {
				r.Errs = append(r.Errs, err.Error())
				p.S.Record("read-err", ep, err.Error(), nil)
				if errors.Is(err, io.EOF) || errors.Is(err, dtls.ErrConnClosed) || isTerminalReadErr(err) {
					r.Err = err
					r.Done = true

					return
				}
				if len(r.Errs) > 1000 {
					r.Err = err
					r.Done = true

					return
				}

				continue
			}
			pl := append([]byte(nil), buf[:n]...)
			seq := p.S.Record("read", ep, fmt.Sprintf("len=%d %s", n, preview(pl)), nil)
			r.Got = append(r.Got, pl)
			r.GotSeq = append(r.GotSeq, seq)
		}
	})

	return r
}

func isTerminalReadErr(err error) bool {
	var ne interface{ Timeout() bool }
	if errors.As(err, &ne) && ne.Timeout() {
		return false
	}
	s := err.Error()
	switch {
	case contains(s, "closed"), contains(s, "EOF"), contains(s, "alert"), contains(s, "handshake"):
		return true
	}

	return false
}

func contains(s, sub string) bool {
	for i := 0; i+len(sub) <= len(s); i++ {
		if s[i:i+len(sub)] == sub {
			return true
		}
	}

	return false
}

func preview(b []byte) string {
	if len(b) > 24 {
		return fmt.Sprintf("%q…", b[:24])
	}

	return fmt.Sprintf("%q", b)
}

// Establish runs both handshakes to completion on the pair's network.
func (p *Pair) Establish(horizon time.Duration) bool {
	p.StartHandshakes(0)

	return p.S.Run(p.BothDone, horizon) && p.BothOK()
}

// Payload builds a unique, attributable application payload of the given size.
func Payload(ep string, writer, k, size int) []byte {
	head := fmt.Sprintf("<%s.%d.%d>", ep, writer, k)
	if size < len(head) {
		size = len(head)
	}
	b := make([]byte, size)
	copy(b, head)
	for i := len(head); i < size; i++ {
		b[i] = byte('a' + (i*7+k)%26)
	}

	return b
}

// WriteSync performs one Write from the controller's point of view: it starts
// the call in a harness goroutine and runs the simulation until it returns.
func (p *Pair) WriteSync(ep string, payload []byte, horizon time.Duration) error {
	var done bool
	var err error
	conn := p.ConnOf(ep)
	p.S.Go(ep+"-write", func() {
		p.S.Record("op-call", ep, "Write "+preview(payload), nil)
		_, err = conn.Write(payload)
		p.S.Record("op-ret", ep, fmt.Sprintf("Write err=%v", err), nil)
		done = true
	})
	if !p.S.Run(func() bool { return done }, horizon) {
		if err == nil && !done {
			return errors.New("write did not return within horizon")
		}
	}

	return err
}
