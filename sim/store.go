package verifsim

import (
	"errors"
	"fmt"
	"math/rand/v2"
	"sync"

	dtls "github.com/pion/dtls/v3"
)

// Store decisions (Dec.A of "store/<name>").
const (
	StOK      = 0
	StError   = 1 // the call fails
	StMiss    = 2 // Get: not found / Set: write lost
	StStale   = 3 // Get: an older secret stored earlier under this key
	StSwapped = 4 // Get: another key's session
	StFlip    = 5 // Get: secret with one bit flipped
	StTrunc   = 6 // Get: secret truncated
)

var stNames = []string{"ok", "error", "miss", "stale", "swapped", "flip", "trunc"}

// SimStore is a SessionStore whose every call is a decision of the run.
type SimStore struct {
	S       *Sim
	Name    string
	FaultPm int // per-mille of calls that draw a fault
	mu      sync.Mutex
	data    map[string]dtls.Session
	history map[string][]dtls.Session
	order   []string
	Calls   []StoreCall
}

type StoreCall struct {
	Seq    uint64
	Op     string
	Key    string
	Act    int
	ID     []byte
	Secret []byte
}

var errStoreInjected = errors.New("simstore: injected failure")

func NewSimStore(s *Sim, name string, faultPm int) *SimStore {
	return &SimStore{S: s, Name: name, FaultPm: faultPm, data: map[string]dtls.Session{}, history: map[string][]dtls.Session{}}
}

func (st *SimStore) decide() Dec {
	if st.FaultPm == 0 && !st.S.Ch.Replay {
		return st.S.Ch.Draw("store/"+st.Name, func(*rand.Rand) Dec { return Dec{} })
	}

	return st.S.Ch.Draw("store/"+st.Name, func(r *rand.Rand) Dec {
		if r.IntN(1000) >= st.FaultPm {
			return Dec{}
		}

		return Dec{A: 1 + int64(r.IntN(6)), B: int64(r.IntN(1 << 16))}
	})
}

func cloneSession(s dtls.Session) dtls.Session {
	return dtls.Session{ID: append([]byte(nil), s.ID...), Secret: append([]byte(nil), s.Secret...)}
}

func (st *SimStore) log(op, key string, act int, s dtls.Session) {
	seq := st.S.Record("store", st.Name, fmt.Sprintf("%s key=%x act=%s id=%x", op, key, stNames[act], s.ID), nil)
	st.Calls = append(st.Calls, StoreCall{Seq: seq, Op: op, Key: key, Act: act, ID: s.ID, Secret: s.Secret})
	if act != StOK {
		st.S.Fault("store-" + stNames[act])
	}
}

func (st *SimStore) Set(key []byte, s dtls.Session) error {
	st.mu.Lock()
	defer st.mu.Unlock()
	d := st.decide()
	k := string(key)
	switch d.A {
	case StError:
		st.log("set", k, StError, s)

		return errStoreInjected
	case StMiss:
		st.log("set", k, StMiss, s)

		return nil
	}
	if _, ok := st.data[k]; !ok {
		st.order = append(st.order, k)
	}
	st.data[k] = cloneSession(s)
	st.history[k] = append(st.history[k], cloneSession(s))
	st.log("set", k, StOK, s)

	return nil
}

func (st *SimStore) Get(key []byte) (dtls.Session, error) {
	st.mu.Lock()
	defer st.mu.Unlock()
	d := st.decide()
	k := string(key)
	cur, ok := st.data[k]
	act := int(d.A)
	switch act {
	case StError:
		st.log("get", k, act, dtls.Session{})

		return dtls.Session{}, errStoreInjected
	case StMiss:
		st.log("get", k, act, dtls.Session{})

		return dtls.Session{}, nil
	case StStale:
		if h := st.history[k]; len(h) > 1 {
			s := cloneSession(h[int(d.B)%(len(h)-1)])
			st.log("get", k, act, s)

			return s, nil
		}
		act = StOK
	case StSwapped:
		if len(st.order) > 1 {
			other := st.order[int(d.B)%len(st.order)]
			if other != k {
				s := cloneSession(st.data[other])
				st.log("get", k, act, s)

				return s, nil
			}
		}
		act = StOK
	case StFlip:
		if ok && len(cur.Secret) > 0 {
			s := cloneSession(cur)
			bit := int(d.B) % (len(s.Secret) * 8)
			s.Secret[bit/8] ^= 1 << (bit % 8)
			st.log("get", k, act, s)

			return s, nil
		}
		act = StOK
	case StTrunc:
		if ok && len(cur.Secret) > 1 {
			s := cloneSession(cur)
			s.Secret = s.Secret[:int(d.B)%len(s.Secret)]
			st.log("get", k, act, s)

			return s, nil
		}
		act = StOK
	}
	if !ok {
		st.log("get", k, StOK, dtls.Session{})

		return dtls.Session{}, nil
	}
	s := cloneSession(cur)
	st.log("get", k, StOK, s)

	return s, nil
}

func (st *SimStore) Del(key []byte) error {
	st.mu.Lock()
	defer st.mu.Unlock()
	d := st.decide()
	k := string(key)
	if d.A == StError {
		st.log("del", k, StError, dtls.Session{})

		return errStoreInjected
	}
	delete(st.data, k)
	st.log("del", k, StOK, dtls.Session{})

	return nil
}

// Peek reads without a decision (oracle use).
func (st *SimStore) Peek(key string) (dtls.Session, bool) {
	st.mu.Lock()
	defer st.mu.Unlock()
	s, ok := st.data[key]

	return s, ok
}

func (st *SimStore) Keys() []string {
	st.mu.Lock()
	defer st.mu.Unlock()

	return append([]string(nil), st.order...)
}
