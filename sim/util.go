package verifsim

import "fmt"

func sprintf(format string, args ...any) string { return fmt.Sprintf(format, args...) }

// splitmix64 derives independent seeds.
func splitmix64(x uint64) uint64 {
	x += 0x9e3779b97f4a7c15
	z := x
	z = (z ^ (z >> 30)) * 0xbf58476d1ce4e5b9
	z = (z ^ (z >> 27)) * 0x94d049bb133111eb

	return z ^ (z >> 31)
}

func hashString(s string) uint64 {
	var h uint64 = 1469598103934665603
	for i := 0; i < len(s); i++ {
		h ^= uint64(s[i])
		h *= 1099511628211
	}

	return h
}

// RunSeed derives the seed of run idx of a property from the root seed.
func RunSeed(root uint64, prop string, idx int) uint64 {
	return splitmix64(splitmix64(root^hashString(prop)) + uint64(idx)*0x9e3779b97f4a7c15)
}

// protoTag names the protocol generation a configuration pair will end up speaking: "dtls13"
// when both sides support 1.3 (the highest common version, whatever their minimum), "dual" when
// exactly one side offers 1.3 and the outcome is 1.2, "dtls12" otherwise. It keeps violation
// signatures specific.
func protoTag(c, s EpSpec) string {
	switch {
	case c.MaxVer == 13 && s.MaxVer == 13:
		return "dtls13"
	case c.MaxVer == 13 || s.MaxVer == 13:
		return "dual"
	}

	return "dtls12"
}
