package verifsim

import (
	"fmt"
	"strings"
)

// Independent wire parser (DESIGN.md §4): shares no code with pkg/protocol.

const (
	CTChangeCipherSpec = 20
	CTAlert            = 21
	CTHandshake        = 22
	CTAppData          = 23
	CTCID              = 25
	CTACK              = 26
)

const (
	HTHelloRequest       = 0
	HTClientHello        = 1
	HTServerHello        = 2
	HTHelloVerifyRequest = 3
	HTNewSessionTicket   = 4
	HTEncryptedExt       = 8
	HTCertificate        = 11
	HTServerKeyExchange  = 12
	HTCertificateRequest = 13
	HTServerHelloDone    = 14
	HTCertificateVerify  = 15
	HTClientKeyExchange  = 16
	HTFinished           = 20
	HTKeyUpdate          = 24
)

// HsFrag is one handshake fragment header + body found in a plaintext record.
type HsFrag struct {
	Type   byte
	Length uint32
	MsgSeq uint16
	Off    uint32
	FLen   uint32
	Body   []byte
}

// Rec is one record of a datagram.
type Rec struct {
	Raw     []byte
	Unified bool // DTLS 1.3 unified header
	Type    byte
	Ver     uint16
	Epoch   uint16 // legacy: full epoch; unified: low 2 bits
	Seq     uint64 // legacy: 48-bit; unified: encrypted low bits (not meaningful)
	SeqLen  int    // unified: 1 or 2 bytes
	CID     []byte
	HdrLen  int
	Body    []byte
	Hs      []HsFrag // parsed when Type==22 && Epoch==0 && !Unified
}

func be(b []byte) uint64 {
	var v uint64
	for _, x := range b {
		v = v<<8 | uint64(x)
	}

	return v
}

// ParseDatagram splits a datagram into records. cidLen is the length of the
// connection ID carried by tls12_cid / unified-header records in this direction.
func ParseDatagram(data []byte, cidLen int) ([]Rec, error) {
	var out []Rec
	for len(data) > 0 {
		b0 := data[0]
		if b0&0xe0 == 0x20 { // unified header 001CSLEE
			r := Rec{Unified: true, Epoch: uint16(b0 & 3)}
			p := 1
			if b0&0x10 != 0 {
				if len(data) < p+cidLen {
					return out, fmt.Errorf("unified header: short CID")
				}
				r.CID = data[p : p+cidLen]
				p += cidLen
			}
			r.SeqLen = 1
			if b0&0x08 != 0 {
				r.SeqLen = 2
			}
			if len(data) < p+r.SeqLen {
				return out, fmt.Errorf("unified header: short seq")
			}
			r.Seq = be(data[p : p+r.SeqLen])
			p += r.SeqLen
			n := len(data) - p
			if b0&0x04 != 0 {
				if len(data) < p+2 {
					return out, fmt.Errorf("unified header: short length")
				}
				n = int(be(data[p : p+2]))
				p += 2
				if len(data) < p+n {
					return out, fmt.Errorf("unified header: body %d > remaining %d", n, len(data)-p)
				}
			}
			r.HdrLen = p
			r.Body = data[p : p+n]
			r.Raw = data[:p+n]
			out = append(out, r)
			data = data[p+n:]

			continue
		}
		if len(data) < 13 {
			return out, fmt.Errorf("short record header (%d bytes)", len(data))
		}
		r := Rec{Type: b0, Ver: uint16(be(data[1:3])), Epoch: uint16(be(data[3:5])), Seq: be(data[5:11])}
		p := 11
		if b0 == CTCID {
			if len(data) < p+cidLen+2 {
				return out, fmt.Errorf("short cid record header")
			}
			r.CID = data[p : p+cidLen]
			p += cidLen
		}
		n := int(be(data[p : p+2]))
		p += 2
		if len(data) < p+n {
			return out, fmt.Errorf("record body %d > remaining %d", n, len(data)-p)
		}
		r.HdrLen = p
		r.Body = data[p : p+n]
		r.Raw = data[:p+n]
		if r.Type == CTHandshake && r.Epoch == 0 {
			r.Hs = ParseHsFrags(r.Body)
		}
		out = append(out, r)
		data = data[p+n:]
	}

	return out, nil
}

// ParseHsFrags parses consecutive handshake fragments of a plaintext record body.
func ParseHsFrags(b []byte) []HsFrag {
	var out []HsFrag
	for len(b) >= 12 {
		f := HsFrag{Type: b[0], Length: uint32(be(b[1:4])), MsgSeq: uint16(be(b[4:6])), Off: uint32(be(b[6:9])), FLen: uint32(be(b[9:12]))}
		if int(f.FLen) > len(b)-12 {
			break
		}
		f.Body = b[12 : 12+f.FLen]
		out = append(out, f)
		b = b[12+f.FLen:]
	}

	return out
}

var hsNames = map[byte]string{
	0: "HelloRequest", 1: "ClientHello", 2: "ServerHello", 3: "HelloVerifyRequest", 4: "NewSessionTicket",
	8: "EncryptedExtensions", 11: "Certificate", 12: "ServerKeyExchange", 13: "CertificateRequest",
	14: "ServerHelloDone", 15: "CertificateVerify", 16: "ClientKeyExchange", 20: "Finished", 24: "KeyUpdate",
}

func HsName(t byte) string {
	if n, ok := hsNames[t]; ok {
		return n
	}

	return fmt.Sprintf("hs%d", t)
}

var ctNames = map[byte]string{20: "ccs", 21: "alert", 22: "hs", 23: "app", 25: "cid", 26: "ack"}

// DescribeDatagram renders a datagram for traces (CID length unknown: 0 assumed
// for display; records that then fail to parse are shown as opaque).
func DescribeDatagram(data []byte) string {
	return DescribeDatagramCID(data, 0)
}

func DescribeDatagramCID(data []byte, cidLen int) string {
	recs, err := ParseDatagram(data, cidLen)
	var sb strings.Builder
	sb.WriteString("[")
	for i, r := range recs {
		if i > 0 {
			sb.WriteString(" ")
		}
		if r.Unified {
			fmt.Fprintf(&sb, "u13(e%d,%dB)", r.Epoch, len(r.Body))

			continue
		}
		name := ctNames[r.Type]
		if name == "" {
			name = fmt.Sprintf("ct%d", r.Type)
		}
		fmt.Fprintf(&sb, "%s(e%d,s%d", name, r.Epoch, r.Seq)
		for _, f := range r.Hs {
			fmt.Fprintf(&sb, ",%s#%d", HsName(f.Type), f.MsgSeq)
			if f.FLen != f.Length {
				fmt.Fprintf(&sb, "@%d+%d/%d", f.Off, f.FLen, f.Length)
			}
		}
		if r.Type == CTAlert && r.Epoch == 0 && len(r.Body) == 2 {
			fmt.Fprintf(&sb, ",lvl%d,desc%d", r.Body[0], r.Body[1])
		}
		sb.WriteString(")")
	}
	if err != nil {
		fmt.Fprintf(&sb, " !%v hex=%x", err, data[:min(len(data), 24)])
	}
	sb.WriteString("]")

	return sb.String()
}

// u64 is the big-endian encoding of v.
func u64(v uint64) []byte {
	return []byte{byte(v >> 56), byte(v >> 48), byte(v >> 40), byte(v >> 32), byte(v >> 24), byte(v >> 16), byte(v >> 8), byte(v)}
}
