package verifsim

import (
	"fmt"
)

// Independent reassembly and parsing of cleartext handshake messages seen on
// the wire (shares no code with pkg/protocol/handshake).

// HsMsg is one complete handshake message reconstructed from epoch-0 fragments.
type HsMsg struct {
	From   string
	Type   byte
	MsgSeq uint16
	Body   []byte
	At     int    // emission index at which it became complete
	Seq    uint64 // global event sequence number of that emission
	Copies int    // number of times a complete copy was (re)assembled
}

type hsAsm struct {
	typ  byte
	body []byte
	have []bool
	done bool
}

// HsCollector reassembles every cleartext handshake message of each sender.
type HsCollector struct {
	asm  map[string]*hsAsm // key: from/msgseq/len/type
	Msgs []*HsMsg
	seen map[string]*HsMsg
}

func NewHsCollector() *HsCollector {
	return &HsCollector{asm: map[string]*hsAsm{}, seen: map[string]*HsMsg{}}
}

// Feed consumes one emitted datagram.
func (c *HsCollector) Feed(em Emission, cidLen int) {
	recs, _ := ParseDatagram(em.Data, cidLen)
	for _, r := range recs {
		for _, f := range r.Hs {
			key := fmt.Sprintf("%s/%d/%d/%d", em.Ep, f.MsgSeq, f.Length, f.Type)
			a := c.asm[key]
			if a == nil || a.done {
				a = &hsAsm{typ: f.Type, body: make([]byte, f.Length), have: make([]bool, f.Length)}
				c.asm[key] = a
			}
			if int(f.Off)+int(f.FLen) > len(a.body) {
				continue
			}
			copy(a.body[f.Off:], f.Body)
			for k := f.Off; k < f.Off+f.FLen; k++ {
				a.have[k] = true
			}
			complete := true
			for _, h := range a.have {
				complete = complete && h
			}
			if complete {
				a.done = true
				id := key + "/" + string(a.body)
				if m, ok := c.seen[id]; ok {
					m.Copies++

					continue
				}
				m := &HsMsg{From: em.Ep, Type: f.Type, MsgSeq: f.MsgSeq, Body: append([]byte(nil), a.body...), At: em.Idx, Seq: em.Seq, Copies: 1}
				c.seen[id] = m
				c.Msgs = append(c.Msgs, m)
			}
		}
	}
}

// Of returns the messages of one sender and type, in order of completion.
func (c *HsCollector) Of(from string, typ byte) []*HsMsg {
	var out []*HsMsg
	for _, m := range c.Msgs {
		if m.From == from && m.Type == typ {
			out = append(out, m)
		}
	}

	return out
}

// Ext is one hello extension.
type Ext struct {
	Type uint16
	Body []byte
}

// Hello is a parsed ClientHello or ServerHello.
type Hello struct {
	Version   uint16
	Random    []byte
	SessionID []byte
	Cookie    []byte   // ClientHello only
	Suites    []uint16 // ClientHello: offered; ServerHello: the one selected
	Exts      []Ext
	IsHRR     bool
}

var hrrRandom = []byte{0xCF, 0x21, 0xAD, 0x74, 0xE5, 0x9A, 0x61, 0x11, 0xBE, 0x1D, 0x8C, 0x02, 0x1E, 0x65, 0xB8, 0x91,
	0xC2, 0xA2, 0x11, 0x16, 0x7A, 0xBB, 0x8C, 0x5E, 0x07, 0x9E, 0x09, 0xE2, 0xC8, 0xA8, 0x33, 0x9C}

type rd struct {
	b   []byte
	err bool
}

func (r *rd) n(k int) []byte {
	if r.err || len(r.b) < k {
		r.err = true

		return nil
	}
	v := r.b[:k]
	r.b = r.b[k:]

	return v
}
func (r *rd) u8() int {
	v := r.n(1)
	if v == nil {
		return 0
	}
	return int(v[0])
}
func (r *rd) u16() int {
	v := r.n(2)
	if v == nil {
		return 0
	}
	return int(v[0])<<8 | int(v[1])
}
func (r *rd) vec8() []byte  { return r.n(r.u8()) }
func (r *rd) vec16() []byte { return r.n(r.u16()) }

func parseExts(b []byte) []Ext {
	var out []Ext
	r := &rd{b: b}
	for len(r.b) >= 4 && !r.err {
		t := r.u16()
		body := r.vec16()
		if r.err {
			break
		}
		out = append(out, Ext{uint16(t), body})
	}

	return out
}

// ParseClientHello parses a DTLS ClientHello body.
func ParseClientHello(b []byte) (*Hello, error) {
	r := &rd{b: b}
	h := &Hello{}
	h.Version = uint16(r.u16())
	h.Random = r.n(32)
	h.SessionID = r.vec8()
	h.Cookie = r.vec8()
	cs := r.vec16()
	for i := 0; i+1 < len(cs); i += 2 {
		h.Suites = append(h.Suites, uint16(cs[i])<<8|uint16(cs[i+1]))
	}
	_ = r.vec8() // compression
	if r.err {
		return nil, fmt.Errorf("short ClientHello")
	}
	if len(r.b) >= 2 {
		h.Exts = parseExts(r.vec16())
	}

	return h, nil
}

// ParseServerHello parses a (D)TLS ServerHello body.
func ParseServerHello(b []byte) (*Hello, error) {
	r := &rd{b: b}
	h := &Hello{}
	h.Version = uint16(r.u16())
	h.Random = r.n(32)
	h.SessionID = r.vec8()
	h.Suites = []uint16{uint16(r.u16())}
	_ = r.u8()
	if r.err {
		return nil, fmt.Errorf("short ServerHello")
	}
	if len(r.b) >= 2 {
		h.Exts = parseExts(r.vec16())
	}
	h.IsHRR = string(h.Random) == string(hrrRandom)

	return h, nil
}

func (h *Hello) Ext(t uint16) ([]byte, bool) {
	for _, e := range h.Exts {
		if e.Type == t {
			return e.Body, true
		}
	}

	return nil, false
}

const (
	ExtServerName       = 0
	ExtSupportedGroups  = 10
	ExtUseSRTP          = 14
	ExtALPN             = 16
	ExtEMS              = 23
	ExtSupportedVers    = 43
	ExtCookie13         = 44
	ExtKeyShare         = 51
	ExtConnectionID     = 54
	ExtRenegotiationInf = 0xff01
)

// ServerKeyExchangeCurve extracts the named curve of a DTLS 1.2 ServerKeyExchange.
func ServerKeyExchangeCurve(body []byte, psk bool) (uint16, bool) {
	r := &rd{b: body}
	if psk {
		_ = r.vec16() // identity hint
	}
	if r.u8() != 3 { // named_curve
		return 0, false
	}
	c := r.u16()

	return uint16(c), !r.err
}

// ServerKeyExchangeScheme extracts the (hash, signature) pair of a DTLS 1.2 ECDHE ServerKeyExchange.
func ServerKeyExchangeScheme(body []byte) (uint16, bool) {
	r := &rd{b: body}
	if r.u8() != 3 { // named_curve
		return 0, false
	}
	_ = r.u16()
	_ = r.vec8() // public key
	v := r.u16()

	return uint16(v), !r.err
}

// TranscriptForm renders a message the way DTLS feeds it to the handshake hash:
// as if it had been sent in a single fragment (RFC 6347 4.2.6).
func (m *HsMsg) TranscriptForm() []byte {
	h := make([]byte, 12)
	h[0] = m.Type
	putU24(h[1:], len(m.Body))
	putU16(h[4:], int(m.MsgSeq))
	putU24(h[6:], 0)
	putU24(h[9:], len(m.Body))

	return append(h, m.Body...)
}
