package verifsim

import (
	"encoding/json"
	"fmt"
	"math/rand/v2"
	"os"
	"runtime"
	"runtime/debug"
	"sort"
	"strings"
	"sync/atomic"
	"testing"
	"testing/cryptotest"
	"testing/synctest"
	"time"
)

// Job is what the driver hands to a worker process (env SIM_JOB = path).
type Job struct {
	Mode      string   `json:"mode"` // run | replay | logdump
	Property  string   `json:"property"`
	Tier      string   `json:"tier"`
	Seed      uint64   `json:"seed"`
	Worker    int      `json:"worker"`
	Workers   int      `json:"workers"`
	BudgetS   int      `json:"budget_s"`
	Out       string   `json:"out"`
	ReplayDir string   `json:"replay_dir"`
	File      string   `json:"file"`      // replay mode
	From, To  int      `json:"-"`         // unused
	MaxRuns   int      `json:"max_runs"`  // cap on runs for this worker (0 = none)
	SkipEnum  bool     `json:"skip_enum"` // start at the first sampled index (race tier: the enumeration is too slow under -race)
	LogDir    string   `json:"log_dir"`   // logdump mode: write full event logs per run
	NoShrink  bool     `json:"no_shrink"` // skip shrinking
	ShrinkS   int      `json:"shrink_s"`
	Only      []int    `json:"only"`     // run exactly these indices (debugging)
	Known     []string `json:"known"`    // signature globs of listed known findings
	HashOut   string   `json:"hash_out"` // selftest: write "idx tracehash schedhash violation" per run
}

// WorkerOut is the aggregate a worker writes.
type WorkerOut struct {
	Property    string            `json:"property"`
	Worker      int               `json:"worker"`
	Runs        int               `json:"runs"`
	EnumRuns    int               `json:"enum_runs"`
	EnumDone    bool              `json:"enum_done"`
	NonTrivial  int               `json:"nontrivial"`
	TraceHashes []uint64          `json:"trace_hashes"` // of non-trivial runs (deduplicated by the driver)
	SchedHashes []uint64          `json:"sched_hashes"`
	SimNs       int64             `json:"sim_ns"`
	Steps       int64             `json:"steps"`
	Faults      map[string]int    `json:"faults"`
	Probes      map[string]int    `json:"probes"`
	Classes     map[string]int    `json:"classes"`
	Parks       int               `json:"parks"`
	Contended   int               `json:"contended"`
	Leaks       int               `json:"leaks"`
	Violations  []ViolationRec    `json:"violations"`
	Samples     []json.RawMessage `json:"samples"`
	WallS       float64           `json:"wall_s"`
	Notes       map[string]int    `json:"notes"`
	Hung        string            `json:"hung,omitempty"`
}

type ViolationRec struct {
	Index      int    `json:"index"`
	Seed       uint64 `json:"seed"`
	Signature  string `json:"signature"`
	Message    string `json:"message"`
	Replay     string `json:"replay"`
	Confirmed  int    `json:"confirmed"` // of 3 in-process replays that reproduced
	ShrunkTo   int    `json:"shrunk_to"` // non-default decisions after shrinking
	ShrunkFrom int    `json:"shrunk_from"`
}

// ReplayFile is the on-disk reproduction of a violation.
type ReplayFile struct {
	Property  string          `json:"property"`
	Seed      uint64          `json:"seed"`
	RootSeed  uint64          `json:"root_seed"`
	Index     int             `json:"index"`
	Tier      string          `json:"tier"`
	Signature string          `json:"signature"`
	Message   string          `json:"message"`
	Params    json.RawMessage `json:"params"`
	Dec       map[string]Dec  `json:"decisions"`
	Trace     []string        `json:"trace"`
	Confirmed int             `json:"confirmed_of_3"`
	Mode      string          `json:"mode,omitempty"` // "" explicit plan; "seed": regenerate from seed (hangs)
}

var stepCtr atomic.Int64
var curRun atomic.Int64

// raceTier: the binary was built with -race (driver sets SIM_RACE=1).
var raceTier = os.Getenv("SIM_RACE") == "1"

var runStartedNs atomic.Int64 // real time at which the current run started
var abortRun atomic.Bool      // set by the watchdog: the current run exceeded its wall budget

const runWallBudget = 10 * time.Second

func setupProcess(t *testing.T) {
	runtime.GOMAXPROCS(1)
	debug.SetGCPercent(-1)
	debug.SetMemoryLimit(3 << 30) // GC only as a last resort: it perturbs goroutine order
	cryptotest.SetGlobalRandom(t, 0x5eed0fce27)
	p, err := BuildCertPool()
	if err != nil {
		t.Fatalf("cert pool: %v", err)
	}
	certPool = p
}

// execute runs one plan in a fresh bubble.
func execute(t *testing.T, sc *Scenario, tier string, params any, ch *Chooser, seed uint64, keepLog bool) *RunResult {
	res := &RunResult{Seed: seed}
	abortRun.Store(false)
	runStartedNs.Store(time.Now().UnixNano())
	defer runStartedNs.Store(0)
	runtime.SetVerifSelectSeed(seed | 1)
	cryptotest.SetGlobalRandom(t, seed)
	var sim *Sim
	func() {
		defer func() {
			if v := recover(); v != nil {
				msg := fmt.Sprint(v)
				if strings.Contains(msg, "deadlock") {
					res.Leaked = true
					if res.Notes == nil {
						res.Notes = map[string]string{}
					}
					res.Notes["bubble"] = msg
				} else {
					res.Panic = msg + "\n" + string(debug.Stack())
				}
			}
		}()
		bubble := func(f func(*testing.T)) { synctest.Test(t, f) }
		if raceTier {
			// under -race the testing package fails (FailNow) any test during which the detector
			// reported something, harness-only reports included: confine that to a subtest
			bubble = func(f func(*testing.T)) {
				t.Run("run", func(st *testing.T) { synctest.Test(st, f) })
			}
		}
		bubble(func(t *testing.T) {
			sim = NewSim(ch, &stepCtr)
			sim.SetAbortFlag(&abortRun)
			sim.KeepLog = keepLog
			rc := &RunCtx{T: t, S: sim, Tier: tier, R: res}
			func() {
				// a panic on the controller goroutine: library code called
				// synchronously by the scenario, or a harness bug (told apart
				// by the first frame below the panic)
				defer func() {
					if v := recover(); v != nil {
						res.Panic = fmt.Sprintf("panic: %v\n%s", v, debug.Stack())
						sim.Net().CloseAll()
					}
				}()
				sc.Run(rc, params)
			}()
			res.SimNs = int64(sim.Now())
			sim.Detach()
		})
	}()
	runtime.SetVerifSelectSeed(0)
	if sim != nil {
		sim.Detach()
		res.TraceHash = sim.TraceHash()
		res.SchedHash = sim.SchedHash()
		res.Steps = sim.Steps
		res.Faults = sim.Faults
		res.Probes = sim.Probes
		res.Parks = sim.Parks
		res.Contended = sim.NContended
		if len(sim.Panics) > 0 && res.Violation == "" {
			res.Panic = sim.Panics[0]
		}
		if sim.Overrun() && (!sc.BudgetIsVerdict || sim.WallAborted()) {
			// resource guard, not an oracle: whatever the scenario concluded from a run that was
			// cut short is void
			res.Violation, res.Signature = "", ""
			if res.Probes == nil {
				res.Probes = map[string]int{}
			}
			res.Probes["run-abandoned-at-budget"]++
		} else if sim.Overrun() && res.Violation == "" {
			res.Signature = "livelock"
			if tag := res.Notes["proto"]; tag != "" {
				res.Signature += ":" + tag
			}
			res.Violation = sim.Failures()[0]
		}
		if keepLog {
			for _, e := range sim.Log {
				res.Trace = append(res.Trace, e.String())
			}
		}
	}
	if res.Panic != "" && res.Violation == "" {
		if site := panicSite(res.Panic); strings.Contains(site, "verifsim") {
			res.Signature = "harness-panic"
			res.Violation = "HARNESS BUG (not a verdict): " + firstLine(res.Panic) + " at " + site
			res.Trace = append(res.Trace, strings.Split(res.Panic, "\n")...)

			return finish(res, ch)
		}
		res.Signature = "panic:" + panicSite(res.Panic)
		res.Violation = "panic in library goroutine: " + firstLine(res.Panic)
		res.Trace = append(res.Trace, strings.Split(res.Panic, "\n")...)
	}
	return finish(res, ch)
}

func finish(res *RunResult, ch *Chooser) *RunResult {
	res.Dec = ch.Dec

	return res
}

// globMatch matches s against a pattern in which '*' stands for any run of characters.
func globMatch(pat, s string) bool {
	parts := strings.Split(pat, "*")
	if len(parts) == 1 {
		return pat == s
	}
	if !strings.HasPrefix(s, parts[0]) {
		return false
	}
	s = s[len(parts[0]):]
	for i := 1; i < len(parts)-1; i++ {
		j := strings.Index(s, parts[i])
		if j < 0 {
			return false
		}
		s = s[j+len(parts[i]):]
	}

	return strings.HasSuffix(s, parts[len(parts)-1])
}

func firstLine(s string) string {
	if i := strings.IndexByte(s, '\n'); i >= 0 {
		return s[:i]
	}

	return s
}

// panicSite extracts the first pion/dtls frame of a stack for the signature.
func panicSite(stack string) string {
	lines := strings.Split(stack, "\n")
	for i, l := range lines {
		if strings.Contains(l, "panic(") {
			for _, m := range lines[i+1:] {
				m = strings.TrimSpace(m)
				if strings.HasPrefix(m, "github.com/pion/") {
					if j := strings.LastIndex(m, "("); j > 0 {
						m = m[:j]
					}

					return m
				}
			}
		}
	}
	for _, m := range lines {
		m = strings.TrimSpace(m)
		if strings.HasPrefix(m, "github.com/pion/dtls/v3") && !strings.Contains(m, "verifsim") {
			if j := strings.LastIndex(m, "("); j > 0 {
				m = m[:j]
			}

			return m
		}
	}

	return "unknown"
}

func cloneDec(d map[string]Dec) map[string]Dec {
	out := make(map[string]Dec, len(d))
	for k, v := range d {
		out[k] = v
	}

	return out
}

func roundTrip(sc *Scenario, params any) (any, json.RawMessage, error) {
	raw, err := json.Marshal(params)
	if err != nil {
		return nil, nil, err
	}
	p := sc.NewParams()
	if err := json.Unmarshal(raw, p); err != nil {
		return nil, nil, err
	}

	return p, raw, nil
}

// faultKeys lists decisions that are faults or scheduling choices (shrinkable).
func faultKeys(dec map[string]Dec) []string {
	var ks []string
	for k, v := range dec {
		switch {
		case strings.HasPrefix(k, "net/"):
			if v.A != 0 {
				ks = append(ks, k)
			}
		case strings.HasPrefix(k, "lat/"), strings.HasPrefix(k, "start/"):
		default:
			if !v.IsZero() {
				ks = append(ks, k)
			}
		}
	}
	sort.Strings(ks)

	return ks
}

func neutralise(dec map[string]Dec, keys []string) map[string]Dec {
	out := cloneDec(dec)
	for _, k := range keys {
		if strings.HasPrefix(k, "net/") {
			v := out[k]
			v.A, v.B = 0, 0
			out[k] = v
		} else {
			delete(out, k)
		}
	}

	return out
}

// shrink minimises the decision set (delta debugging) and then the params.
func shrink(t *testing.T, sc *Scenario, tier string, params any, dec map[string]Dec, seed uint64, sig string, budget time.Duration) (any, map[string]Dec) {
	deadline := time.Now().Add(budget)
	try := func(p any, d map[string]Dec) bool {
		if time.Now().After(deadline) {
			return false
		}
		r := execute(t, sc, tier, p, NewReplayChooser(cloneDec(d)), seed, false)

		return r.Violation != "" && r.Signature == sig
	}
	keys := faultKeys(dec)
	n := 2
	for len(keys) > 0 && time.Now().Before(deadline) {
		chunk := (len(keys) + n - 1) / n
		reduced := false
		for i := 0; i < len(keys); i += chunk {
			j := i + chunk
			if j > len(keys) {
				j = len(keys)
			}
			cand := neutralise(dec, keys[i:j])
			if try(params, cand) {
				dec = cand
				keys = append(append([]string(nil), keys[:i]...), keys[j:]...)
				if n > 2 {
					n--
				}
				reduced = true

				break
			}
		}
		if !reduced {
			if chunk == 1 {
				break
			}
			n *= 2
			if n > len(keys) {
				n = len(keys)
			}
		}
	}
	if sc.Shrink != nil {
		for progress := true; progress && time.Now().Before(deadline); {
			progress = false
			for _, cand := range sc.Shrink(params) {
				cp, _, err := roundTrip(sc, cand)
				if err != nil {
					continue
				}
				if try(cp, dec) {
					params = cp
					progress = true

					break
				}
			}
		}
	}

	return params, dec
}

func TestWorker(t *testing.T) {
	path := os.Getenv("SIM_JOB")
	if path == "" {
		t.Skip("SIM_JOB not set")
	}
	raw, err := os.ReadFile(path)
	if err != nil {
		t.Fatal(err)
	}
	var job Job
	if err := json.Unmarshal(raw, &job); err != nil {
		t.Fatal(err)
	}
	setupProcess(t)
	switch job.Mode {
	case "replay":
		runReplay(t, &job)
	default:
		runWorker(t, &job)
	}
}

func startWatchdog(out *WorkerOut, job *Job) {
	go func() {
		last := stepCtr.Load()
		stall := 0
		for {
			time.Sleep(time.Second)
			now := time.Now()
			_ = os.Chtimes(job.Out+".hb", now, now)
			if st := runStartedNs.Load(); st != 0 && now.UnixNano()-st > int64(runWallBudget) {
				abortRun.Store(true)
			}
			cur := stepCtr.Load()
			if cur == last && curRun.Load() >= 0 {
				stall++
			} else {
				stall = 0
			}
			last = cur
			if stall >= 45 {
				out.Hung = fmt.Sprintf("run index %d made no controller step for 45 s", curRun.Load())
				buf := make([]byte, 1<<20)
				buf = buf[:runtime.Stack(buf, true)]
				_ = os.WriteFile(job.Out+".hang-stacks.txt", buf, 0o644)
				b, _ := json.Marshal(out)
				_ = os.WriteFile(job.Out, b, 0o644)
				os.Exit(3)
			}
		}
	}()
}

func runWorker(t *testing.T, job *Job) {
	sc := registry[job.Property]
	if sc == nil {
		t.Fatalf("unknown property %q", job.Property)
	}
	out := &WorkerOut{Property: job.Property, Worker: job.Worker, Faults: map[string]int{}, Probes: map[string]int{}, Classes: map[string]int{}, Notes: map[string]int{}}
	curRun.Store(-1)
	_ = os.WriteFile(job.Out+".hb", []byte("-1"), 0o644)
	startWatchdog(out, job)
	start := time.Now()
	enum, sample := sc.Counts(job.Tier)
	total := enum + sample
	budget := time.Duration(job.BudgetS) * time.Second
	seenT := map[uint64]bool{}
	seenS := map[uint64]bool{}
	sigSeen := map[string]int{}
	out.EnumDone = true
	var hashLines []string
	var indices []int
	if len(job.Only) > 0 {
		for i, x := range job.Only {
			if i%job.Workers == job.Worker {
				indices = append(indices, x)
			}
		}
	} else {
		first := job.Worker
		if job.SkipEnum {
			first += enum - enum%job.Workers + job.Workers
		}
		for idx := first; idx < total; idx += job.Workers {
			indices = append(indices, idx)
		}
	}
	for _, idx := range indices {
		if idx >= enum && budget > 0 && time.Since(start) > budget {
			break
		}
		if job.MaxRuns > 0 && out.Runs >= job.MaxRuns {
			if idx < enum {
				out.EnumDone = false
			}

			break
		}
		seed := RunSeed(job.Seed, job.Property, idx)
		gen := rand.New(rand.NewPCG(seed, 0x1234567))
		params0 := sc.Gen(gen, job.Tier, idx)
		params, rawParams, err := roundTrip(sc, params0)
		if err != nil {
			t.Fatalf("params round trip: %v", err)
		}
		curRun.Store(int64(idx))
		_ = os.WriteFile(job.Out+".cur", []byte(fmt.Sprint(idx)), 0o644)
		keep := len(out.Samples) < 2 || job.LogDir != ""
		res := execute(t, sc, job.Tier, params, NewGenChooser(seed), seed, keep)
		curRun.Store(-1)
		res.Index = idx
		out.Runs++
		if idx < enum {
			out.EnumRuns++
		}
		out.SimNs += res.SimNs
		out.Steps += res.Steps
		out.Parks += res.Parks
		out.Contended += res.Contended
		for k, v := range res.Faults {
			out.Faults[k] += v
		}
		for k, v := range res.Probes {
			if strings.HasPrefix(k, "max:") {
				if v > out.Probes[k] {
					out.Probes[k] = v
				}

				continue
			}
			out.Probes[k] += v
		}
		for k := range res.Notes {
			out.Notes[k]++
		}
		if res.Class != "" {
			out.Classes[res.Class]++
		}
		if res.Leaked {
			out.Leaks++
		}
		if res.NonTriv && !seenT[res.TraceHash] {
			seenT[res.TraceHash] = true
			out.NonTrivial++
			out.TraceHashes = append(out.TraceHashes, res.TraceHash)
		}
		if res.SchedHash != 0 && !seenS[res.SchedHash] {
			seenS[res.SchedHash] = true
			out.SchedHashes = append(out.SchedHashes, res.SchedHash)
		}
		if job.HashOut != "" {
			hashLines = append(hashLines, fmt.Sprintf("%d %016x %016x %s", idx, res.TraceHash, res.SchedHash, res.Signature))
		}
		if job.LogDir != "" {
			_ = os.MkdirAll(job.LogDir, 0o755)
			_ = os.WriteFile(fmt.Sprintf("%s/%s-%06d.log", job.LogDir, job.Property, idx),
				[]byte(fmt.Sprintf("seed=%d params=%s\nviolation=%q\n%s\n", seed, rawParams, res.Violation, strings.Join(res.Trace, "\n"))), 0o644)
		}
		if keep && len(out.Samples) < 2 {
			tr := res.Trace
			if len(tr) > 30 {
				tr = append(append([]string(nil), tr[:30]...), fmt.Sprintf("… %d more events", len(res.Trace)-30))
			}
			smp, _ := json.Marshal(map[string]any{"index": idx, "seed": seed, "params": rawParams, "faults_fired": res.Faults, "class": res.Class, "trace": tr})
			out.Samples = append(out.Samples, smp)
		}
		if res.Violation != "" {
			sigSeen[res.Signature]++
			isKnown := false
			for _, pat := range job.Known {
				if globMatch(pat, res.Signature) {
					isKnown = true
				}
			}
			if sigSeen[res.Signature] > 2 || isKnown {
				// same class already reported three times by this worker: count only
				out.Violations = append(out.Violations, ViolationRec{Index: idx, Seed: seed, Signature: res.Signature, Message: res.Violation})

				continue
			}
			out.Violations = append(out.Violations, reportViolation(t, sc, job, idx, seed, params, rawParams, res))
		}
		if out.Runs%64 == 0 {
			runtime.GC()
		}
	}
	out.WallS = time.Since(start).Seconds()
	if job.HashOut != "" {
		_ = os.WriteFile(job.HashOut, []byte(strings.Join(hashLines, "\n")+"\n"), 0o644)
	}
	b, _ := json.Marshal(out)
	if err := os.WriteFile(job.Out, b, 0o644); err != nil {
		t.Fatal(err)
	}
}

func reportViolation(t *testing.T, sc *Scenario, job *Job, idx int, seed uint64, params any, rawParams json.RawMessage, res *RunResult) ViolationRec {
	vr := ViolationRec{Index: idx, Seed: seed, Signature: res.Signature, Message: res.Violation}
	dec := cloneDec(res.Dec)
	vr.ShrunkFrom = len(faultKeys(dec))
	// confirm: replay the explicit plan
	confirmRuns := 3
	if strings.HasPrefix(res.Signature, "livelock") {
		confirmRuns = 1 // each replay of a livelock costs the full run budget
		vr.Confirmed = 2
	}
	for i := 0; i < confirmRuns; i++ {
		r := execute(t, sc, job.Tier, params, NewReplayChooser(cloneDec(dec)), seed, false)
		if r.Violation != "" && r.Signature == res.Signature {
			vr.Confirmed++
		}
	}
	finalParams := params
	if vr.Confirmed == 3 && !job.NoShrink && !strings.HasPrefix(res.Signature, "livelock") {
		b := time.Duration(job.ShrinkS) * time.Second
		if b == 0 {
			b = 20 * time.Second
		}
		finalParams, dec = shrink(t, sc, job.Tier, params, dec, seed, res.Signature, b)
	}
	vr.ShrunkTo = len(faultKeys(dec))
	final := execute(t, sc, job.Tier, finalParams, NewReplayChooser(cloneDec(dec)), seed, true)
	msg, sig, trace := final.Violation, final.Signature, final.Trace
	if final.Violation == "" || final.Signature != res.Signature {
		// shrinking result did not hold up: fall back to the original plan
		finalParams, dec = params, cloneDec(res.Dec)
		msg, sig, trace = res.Violation, res.Signature, res.Trace
		vr.ShrunkTo = vr.ShrunkFrom
	}
	fp, _ := json.Marshal(finalParams)
	rf := ReplayFile{Property: job.Property, Seed: seed, RootSeed: job.Seed, Index: idx, Tier: job.Tier, Signature: sig, Message: msg, Params: fp, Dec: dec, Trace: trace, Confirmed: vr.Confirmed}
	_ = os.MkdirAll(job.ReplayDir, 0o755)
	name := fmt.Sprintf("%s/%s-%d-%d.json", job.ReplayDir, job.Property, job.Seed, idx)
	b, _ := json.MarshalIndent(rf, "", " ")
	_ = os.WriteFile(name, b, 0o644)
	vr.Replay = name
	vr.Message = msg

	return vr
}

func runReplay(t *testing.T, job *Job) {
	raw, err := os.ReadFile(job.File)
	if err != nil {
		t.Fatal(err)
	}
	var rf ReplayFile
	if err := json.Unmarshal(raw, &rf); err != nil {
		t.Fatal(err)
	}
	sc := registry[rf.Property]
	if sc == nil {
		t.Fatalf("unknown property %q", rf.Property)
	}
	var res *RunResult
	if rf.Mode == "seed" {
		// regenerate the plan from the seed (used for runs that never finished,
		// where no explicit decision list could be recorded)
		gen := rand.New(rand.NewPCG(rf.Seed, 0x1234567))
		params, _, err := roundTrip(sc, sc.Gen(gen, rf.Tier, rf.Index))
		if err != nil {
			t.Fatal(err)
		}
		startWatchdog(&WorkerOut{}, job)
		curRun.Store(int64(rf.Index))
		res = execute(t, sc, rf.Tier, params, NewGenChooser(rf.Seed), rf.Seed, true)
	} else {
		params := sc.NewParams()
		if err := json.Unmarshal(rf.Params, params); err != nil {
			t.Fatal(err)
		}
		res = execute(t, sc, rf.Tier, params, NewReplayChooser(cloneDec(rf.Dec)), rf.Seed, true)
	}
	out := map[string]any{"property": rf.Property, "violation": res.Violation, "signature": res.Signature, "expected_signature": rf.Signature,
		"reproduced": res.Violation != "" && res.Signature == rf.Signature, "trace": res.Trace}
	b, _ := json.MarshalIndent(out, "", " ")
	if job.Out != "" {
		_ = os.WriteFile(job.Out, b, 0o644)
	}
}
