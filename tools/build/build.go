// Package build produces the instrumented simulator test binary from the
// current /repo working tree (DESIGN.md §2.2, §8). Nothing is written to
// /repo; everything lands in the scratch directory given by the caller.
package build

import (
	"bytes"
	"encoding/json"
	"fmt"
	"io/fs"
	"os"
	"os/exec"
	"path/filepath"
	"regexp"
	"strings"

	"veriftools/instrument"
)

const GoBin = "go1.26.8"

// RepoDir is the pion/dtls tree the checks are built from: /repo, always, for the registered
// commands. SIMCHECK_REPO_DIR points the build at a scratch worktree instead; it exists so that
// seeded breaking changes can be tried without touching /repo while other checks are running.
var RepoDir = func() string {
	if d := os.Getenv("SIMCHECK_REPO_DIR"); d != "" {
		return d
	}

	return "/repo"
}()

// VerifDir is the /verif tree to build from (set by the driver to its working directory).
var VerifDir = "/verif"

// Result describes a finished build.
type Result struct {
	Binary     string
	Scratch    string
	Stats      instrument.Stats
	Files      int
	BuildLog   string
	RepoTreeID string
}

func goEnv() []string {
	env := os.Environ()
	env = append(env,
		"GOFLAGS=-mod=mod", "GOPROXY=off", "GOSUMDB=off", "GOTOOLCHAIN=local",
		"GOWORK=off", "CGO_ENABLED=0",
	)

	return env
}

func goOutput(dir string, args ...string) (string, error) {
	cmd := exec.Command(GoBin, args...)
	cmd.Dir = dir
	cmd.Env = goEnv()
	var out bytes.Buffer
	cmd.Stdout = &out
	cmd.Stderr = &out
	err := cmd.Run()

	return out.String(), err
}

func copyTree(src, dst string) error {
	return filepath.WalkDir(src, func(p string, d fs.DirEntry, err error) error {
		if err != nil {
			return err
		}
		rel, _ := filepath.Rel(src, p)
		target := filepath.Join(dst, rel)
		if d.IsDir() {
			return os.MkdirAll(target, 0o755)
		}
		b, err := os.ReadFile(p)
		if err != nil {
			return err
		}

		return os.WriteFile(target, b, 0o644)
	})
}

var transportReq = regexp.MustCompile(`(?m)^\s*github\.com/pion/transport/v4\s+(v[0-9][^\s]*)`)

// Build instruments the tree and compiles the simulator test binary.
func Build(scratch string, race bool) (*Result, error) {
	res := &Result{Scratch: scratch}
	if err := os.MkdirAll(scratch, 0o755); err != nil {
		return nil, err
	}
	goroot, err := goOutput("/", "env", "GOROOT")
	if err != nil {
		return nil, fmt.Errorf("go env GOROOT: %v: %s", err, goroot)
	}
	goroot = strings.TrimSpace(goroot)
	modcache, err := goOutput("/", "env", "GOMODCACHE")
	if err != nil {
		return nil, fmt.Errorf("go env GOMODCACHE: %v", err)
	}
	modcache = strings.TrimSpace(modcache)

	overlay := map[string]string{}

	// --- R1 on /repo -------------------------------------------------------
	repoOut := filepath.Join(scratch, "repo")
	err = filepath.WalkDir(RepoDir, func(p string, d fs.DirEntry, err error) error {
		if err != nil {
			return err
		}
		rel, _ := filepath.Rel(RepoDir, p)
		if d.IsDir() {
			switch rel {
			case ".git", "e2e", "examples", "testdata":
				return filepath.SkipDir
			}

			return nil
		}
		if !strings.HasSuffix(p, ".go") || strings.HasSuffix(p, "_test.go") {
			return nil
		}
		src, err := os.ReadFile(p)
		if err != nil {
			return err
		}
		if rel == "internal/net/udp/packet_conn.go" {
			src, err = rewriteR2(src)
			if err != nil {
				return err
			}
		}
		out, st, err := instrument.File(src, rel)
		if err != nil {
			return fmt.Errorf("instrument %s: %w", rel, err)
		}
		if st.Total() == 0 && rel != "internal/net/udp/packet_conn.go" {
			return nil
		}
		res.Stats.Add(st)
		res.Files++
		target := filepath.Join(repoOut, rel)
		if err := os.MkdirAll(filepath.Dir(target), 0o755); err != nil {
			return err
		}
		if err := os.WriteFile(target, out, 0o644); err != nil {
			return err
		}
		overlay[p] = target

		return nil
	})
	if err != nil {
		return nil, err
	}

	// --- added files for /repo packages (hooks/repo/<rel>) -------------------
	hooksRepo := filepath.Join(VerifDir, "hooks", "repo")
	_ = filepath.WalkDir(hooksRepo, func(p string, d fs.DirEntry, err error) error {
		if err != nil || d.IsDir() || !strings.HasSuffix(p, ".go") {
			return nil
		}
		rel, _ := filepath.Rel(hooksRepo, p)
		target := filepath.Join(RepoDir, rel)
		if _, statErr := os.Stat(target); statErr == nil {
			// never shadow an existing repository file
			return nil
		}
		overlay[target] = p

		return nil
	})

	// --- pion/transport copy with instrumented netctx + verifhook -----------
	gomod, err := os.ReadFile(filepath.Join(RepoDir, "go.mod"))
	if err != nil {
		return nil, err
	}
	m := transportReq.FindSubmatch(gomod)
	if m == nil {
		return nil, fmt.Errorf("cannot find pion/transport/v4 requirement in /repo/go.mod")
	}
	transportSrc := filepath.Join(modcache, "github.com/pion/transport", "v4@"+string(m[1]))
	transportDst := filepath.Join(scratch, "transport")
	for _, sub := range []string{"go.mod", "go.sum", "net.go", "netctx", "deadline", "replaydetector", "udp", "packetio", "dpipe", "stdnet", "utils"} {
		s := filepath.Join(transportSrc, sub)
		fi, err := os.Stat(s)
		if err != nil {
			continue
		}
		if fi.IsDir() {
			if err := copyTree(s, filepath.Join(transportDst, sub)); err != nil {
				return nil, err
			}
		} else {
			b, _ := os.ReadFile(s)
			if err := os.MkdirAll(transportDst, 0o755); err != nil {
				return nil, err
			}
			if err := os.WriteFile(filepath.Join(transportDst, sub), b, 0o644); err != nil {
				return nil, err
			}
		}
	}
	netctxDir := filepath.Join(transportDst, "netctx")
	ents, err := os.ReadDir(netctxDir)
	if err != nil {
		return nil, fmt.Errorf("netctx copy: %w", err)
	}
	for _, e := range ents {
		if !strings.HasSuffix(e.Name(), ".go") || strings.HasSuffix(e.Name(), "_test.go") {
			continue
		}
		p := filepath.Join(netctxDir, e.Name())
		src, _ := os.ReadFile(p)
		out, st, err := instrument.File(src, "netctx/"+e.Name())
		if err != nil {
			return nil, err
		}
		res.Stats.Add(st)
		if st.Total() > 0 {
			res.Files++
			if err := os.WriteFile(p, out, 0o644); err != nil {
				return nil, err
			}
		}
	}
	if err := copyTree(filepath.Join(VerifDir, "hooks", "verifhook"), filepath.Join(transportDst, "verifhook")); err != nil {
		return nil, err
	}

	// --- R3: runtime select order ------------------------------------------
	selSrc, err := os.ReadFile(filepath.Join(goroot, "src/runtime/select.go"))
	if err != nil {
		return nil, err
	}
	const pat = "cheaprandn(uint32(norder + 1))"
	if bytes.Count(selSrc, []byte(pat)) != 1 {
		return nil, fmt.Errorf("R3: pattern %q does not occur exactly once in runtime/select.go", pat)
	}
	selOut := bytes.Replace(selSrc, []byte(pat), []byte("verifSelectRand(uint32(norder + 1))"), 1)
	rtDir := filepath.Join(scratch, "runtime")
	if err := os.MkdirAll(rtDir, 0o755); err != nil {
		return nil, err
	}
	if err := os.WriteFile(filepath.Join(rtDir, "select.go"), selOut, 0o644); err != nil {
		return nil, err
	}
	rtExtra, err := os.ReadFile(filepath.Join(VerifDir, "hooks", "runtime", "verif_sim.go.txt"))
	if err != nil {
		return nil, err
	}
	if err := os.WriteFile(filepath.Join(rtDir, "verif_sim.go"), rtExtra, 0o644); err != nil {
		return nil, err
	}
	// R3b: goroutines outside a bubble (watchdog, scavenger, timers on the real
	// clock) must not take the runnext slot while a simulation runs: that kicks
	// a bubble goroutine to the queue tail and reorders the simulated schedule
	// as a function of real time.
	procSrc, err := os.ReadFile(filepath.Join(goroot, "src/runtime/proc.go"))
	if err != nil {
		return nil, err
	}
	const procPat = "if randomizeScheduler && next && randn(2) == 0 {"
	if bytes.Count(procSrc, []byte(procPat)) != 1 {
		return nil, fmt.Errorf("R3b: pattern %q does not occur exactly once in runtime/proc.go", procPat)
	}
	procOut := bytes.Replace(procSrc, []byte(procPat), []byte("if (randomizeScheduler && next && randn(2) == 0) || (next && verifSelectState != 0 && gp.bubble == nil) {"), 1)
	// R3d: sysmon asks a goroutine that has been running for 10 ms of *real* time to yield at its
	// next function call; on a loaded machine that perturbs the order in which bubble goroutines
	// run. Goroutines of an active simulation are never preempted (they block often enough).
	const preemptPat = "\tgp.preempt = true\n\n\t// Every call in a goroutine checks for stack overflow by"
	if bytes.Count(procOut, []byte(preemptPat)) != 1 {
		return nil, fmt.Errorf("R3d: preemptone pattern does not occur exactly once in runtime/proc.go")
	}
	procOut = bytes.Replace(procOut, []byte(preemptPat), []byte("\tif verifSelectState != 0 && gp.bubble != nil {\n\t\treturn false\n\t}\n"+preemptPat), 1)
	if err := os.WriteFile(filepath.Join(rtDir, "proc.go"), procOut, 0o644); err != nil {
		return nil, err
	}
	// R3c: fake-clock timers that expire at the same instant are ordered by a per-timer random
	// value (runtime/time.go); take it from the seeded stream.
	timeSrc, err := os.ReadFile(filepath.Join(goroot, "src/runtime/time.go"))
	if err != nil {
		return nil, err
	}
	const timePat = "t.rand = cheaprand()"
	if bytes.Count(timeSrc, []byte(timePat)) != 1 {
		return nil, fmt.Errorf("R3c: pattern %q does not occur exactly once in runtime/time.go", timePat)
	}
	timeOut := bytes.Replace(timeSrc, []byte(timePat), []byte("t.rand = verifTimerRand()"), 1)
	if err := os.WriteFile(filepath.Join(rtDir, "time.go"), timeOut, 0o644); err != nil {
		return nil, err
	}
	overlay[filepath.Join(goroot, "src/runtime/time.go")] = filepath.Join(rtDir, "time.go")
	overlay[filepath.Join(goroot, "src/runtime/proc.go")] = filepath.Join(rtDir, "proc.go")
	overlay[filepath.Join(goroot, "src/runtime/select.go")] = filepath.Join(rtDir, "select.go")
	overlay[filepath.Join(goroot, "src/runtime/verif_sim.go")] = filepath.Join(rtDir, "verif_sim.go")

	ov, _ := json.MarshalIndent(map[string]any{"Replace": overlay}, "", " ")
	ovPath := filepath.Join(scratch, "overlay.json")
	if err := os.WriteFile(ovPath, ov, 0o644); err != nil {
		return nil, err
	}

	// --- modfile --------------------------------------------------------------
	simDir := filepath.Join(VerifDir, "sim")
	simMod, err := os.ReadFile(filepath.Join(simDir, "go.mod"))
	if err != nil {
		return nil, err
	}
	if RepoDir != "/repo" {
		simMod = bytes.Replace(simMod, []byte("replace github.com/pion/dtls/v3 => /repo"), []byte("replace github.com/pion/dtls/v3 => "+RepoDir), 1)
	}
	simMod = append(simMod, []byte(fmt.Sprintf("\nreplace github.com/pion/transport/v4 => %s\n", transportDst))...)
	modPath := filepath.Join(scratch, "go.mod")
	if err := os.WriteFile(modPath, simMod, 0o644); err != nil {
		return nil, err
	}
	sum, _ := os.ReadFile(filepath.Join(RepoDir, "go.sum"))
	extraSum, _ := os.ReadFile(filepath.Join(simDir, "go.sum.extra"))
	if err := os.WriteFile(filepath.Join(scratch, "go.sum"), append(sum, extraSum...), 0o644); err != nil {
		return nil, err
	}

	// --- compile ---------------------------------------------------------------
	bin := filepath.Join(scratch, "sim.test")
	args := []string{"test", "-c", "-tags", "verif", "-vet=off", "-overlay", ovPath, "-modfile", modPath, "-o", bin}
	if race {
		args = append(args, "-race")
	}
	args = append(args, ".")
	cmd := exec.Command(GoBin, args...)
	cmd.Dir = simDir
	env := goEnv()
	if race {
		for i, e := range env {
			if e == "CGO_ENABLED=0" {
				env[i] = "CGO_ENABLED=1"
			}
		}
	}
	cmd.Env = env
	var out bytes.Buffer
	cmd.Stdout = &out
	cmd.Stderr = &out
	err = cmd.Run()
	res.BuildLog = out.String()
	if err != nil {
		return res, fmt.Errorf("go test -c failed: %v\n%s", err, res.BuildLog)
	}
	res.Binary = bin

	return res, nil
}

// rewriteR2 makes the UDP listener accept an injected net.PacketConn: the
// concrete *net.UDPConn field type becomes the interface. Each pattern must
// match exactly as often as stated, else the build fails (exit 2).
func rewriteR2(src []byte) ([]byte, error) {
	reps := [][2]string{
		{"pConn *net.UDPConn", "pConn net.PacketConn"},
		{"innerConn, err := lc.ListenConfig.ListenPacket(context.Background(), network, laddrStr)", "innerConn, err := verifListenPacket(lc, network, laddrStr)"},
		{"conn, ok := innerConn.(*net.UDPConn)", "conn, ok := innerConn.(net.PacketConn)"},
	}
	for _, r := range reps {
		if c := bytes.Count(src, []byte(r[0])); c != 1 {
			return nil, fmt.Errorf("R2: pattern %q occurs %d times in internal/net/udp/packet_conn.go (want 1)", r[0], c)
		}
		src = bytes.Replace(src, []byte(r[0]), []byte(r[1]), 1)
	}

	return src, nil
}
