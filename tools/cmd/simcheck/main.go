// simcheck is the /verif driver: it builds the instrumented simulator from the
// current /repo working tree, fans runs out over worker processes, aggregates
// the evidence and prints VIOLATION / KNOWN-FINDING lines (DESIGN.md §8).
//
//	simcheck run <PROPERTY> [--tier quick|thorough] [--workers N] [--budget SEC]
//	simcheck replay <FILE>
//	simcheck build <DIR>            (keep an instrumented build for debugging)
//
// Exit status: 0 property held on everything explored (known findings only),
// 1 violation (VIOLATION line printed), 2 harness/build trouble.
package main

import (
	"encoding/json"
	"fmt"
	"os"
	"os/exec"
	"path/filepath"
	"runtime"
	"sort"
	"strconv"
	"strings"
	"sync"
	"syscall"
	"time"

	"veriftools/build"
)

// verifDir is the /verif tree this driver runs in (its working directory).
var verifDir = "/verif"

type tierCfg struct {
	BudgetS int
}

func die(code int, format string, args ...any) {
	fmt.Fprintf(os.Stderr, format+"\n", args...)
	os.Exit(code)
}

func main() {
	if wd, err := os.Getwd(); err == nil {
		if _, err := os.Stat(filepath.Join(wd, "sim", "go.mod")); err == nil {
			verifDir = wd
			build.VerifDir = wd
		}
	}
	if len(os.Args) < 2 {
		die(2, "usage: simcheck run|replay|build ...")
	}
	switch os.Args[1] {
	case "run":
		cmdRun(os.Args[2:])
	case "replay":
		cmdReplay(os.Args[2:])
	case "selftest":
		cmdSelftest(os.Args[2:])
	case "build":
		if len(os.Args) < 3 {
			die(2, "usage: simcheck build DIR")
		}
		res, err := build.Build(os.Args[2], false)
		if err != nil {
			die(2, "build failed: %v", err)
		}
		fmt.Printf("built %s (instrumented %d files: %+v)\n", res.Binary, res.Files, res.Stats)
	default:
		die(2, "unknown subcommand %q", os.Args[1])
	}
}

type job struct {
	Mode      string `json:"mode"`
	Property  string `json:"property"`
	Tier      string `json:"tier"`
	Seed      uint64 `json:"seed"`
	Worker    int    `json:"worker"`
	Workers   int    `json:"workers"`
	BudgetS   int    `json:"budget_s"`
	Out       string `json:"out"`
	ReplayDir string `json:"replay_dir"`
	File      string `json:"file"`
	MaxRuns   int    `json:"max_runs"`
	LogDir    string `json:"log_dir"`
	NoShrink  bool   `json:"no_shrink"`
	SkipEnum  bool   `json:"skip_enum"`
	ShrinkS   int    `json:"shrink_s"`
	Only      []int  `json:"only"`
	Known     []string `json:"known"` // signature globs of listed known findings: counted, not shrunk
	HashOut   string   `json:"hash_out"`
}

type violationRec struct {
	Index      int    `json:"index"`
	Seed       uint64 `json:"seed"`
	Signature  string `json:"signature"`
	Message    string `json:"message"`
	Replay     string `json:"replay"`
	Confirmed  int    `json:"confirmed"`
	ShrunkTo   int    `json:"shrunk_to"`
	ShrunkFrom int    `json:"shrunk_from"`
}

type workerOut struct {
	Property    string            `json:"property"`
	Worker      int               `json:"worker"`
	Runs        int               `json:"runs"`
	EnumRuns    int               `json:"enum_runs"`
	EnumDone    bool              `json:"enum_done"`
	NonTrivial  int               `json:"nontrivial"`
	TraceHashes []uint64          `json:"trace_hashes"`
	SchedHashes []uint64          `json:"sched_hashes"`
	SimNs       int64             `json:"sim_ns"`
	Steps       int64             `json:"steps"`
	Faults      map[string]int    `json:"faults"`
	Probes      map[string]int    `json:"probes"`
	Classes     map[string]int    `json:"classes"`
	Parks       int               `json:"parks"`
	Contended   int               `json:"contended"`
	Leaks       int               `json:"leaks"`
	Violations  []violationRec    `json:"violations"`
	Samples     []json.RawMessage `json:"samples"`
	WallS       float64           `json:"wall_s"`
	Notes       map[string]int    `json:"notes"`
	Hung        string            `json:"hung"`
}

type knownFinding struct {
	Property  string `json:"property"`
	Signature string `json:"signature"` // exact signature or prefix ending in '*'
	What      string `json:"what"`
	Status    string `json:"status"` // "open" (suppresses, prints KNOWN-FINDING) or "fixed" (suppresses nothing)
	Commit    string `json:"commit,omitempty"`
	ID        string `json:"id,omitempty"`
}

func loadKnown() []knownFinding {
	var kf struct {
		Findings []knownFinding `json:"findings"`
	}
	path := filepath.Join(verifDir, "known_findings.json")
	if alt := os.Getenv("SIMCHECK_KNOWN_FILE"); alt != "" { // development only: look at a finding's runs with the entry removed
		path = alt
	}
	b, err := os.ReadFile(path)
	if err != nil {
		return nil
	}
	if err := json.Unmarshal(b, &kf); err != nil {
		die(2, "known_findings.json: %v", err)
	}

	return kf.Findings
}

func matchKnown(known []knownFinding, prop, sig string) *knownFinding {
	for i := range known {
		k := &known[i]
		if k.Property != prop || k.Status != "open" {
			continue
		}
		if globMatch(k.Signature, sig) {
			return k
		}
	}

	return nil
}

// globMatch matches s against a pattern in which '*' stands for any run of characters.
func globMatch(pat, s string) bool {
	parts := strings.Split(pat, "*")
	if len(parts) == 1 {
		return pat == s
	}
	if !strings.HasPrefix(s, parts[0]) {
		return false
	}
	s = s[len(parts[0]):]
	for i := 1; i < len(parts)-1; i++ {
		j := strings.Index(s, parts[i])
		if j < 0 {
			return false
		}
		s = s[j+len(parts[i]):]
	}

	return strings.HasSuffix(s, parts[len(parts)-1])
}

func parseFlags(args []string) (pos []string, flags map[string]string) {
	flags = map[string]string{}
	for i := 0; i < len(args); i++ {
		a := args[i]
		if strings.HasPrefix(a, "--") {
			k := strings.TrimPrefix(a, "--")
			if j := strings.IndexByte(k, '='); j >= 0 {
				flags[k[:j]] = k[j+1:]
			} else if i+1 < len(args) && !strings.HasPrefix(args[i+1], "--") {
				flags[k] = args[i+1]
				i++
			} else {
				flags[k] = "true"
			}
		} else {
			pos = append(pos, a)
		}
	}

	return pos, flags
}

// per-property wall budgets (seconds) for the sampled part of each tier.
var budgets = map[string][2]int{}

func budgetFor(prop, tier string) int {
	b, ok := budgets[prop]
	if !ok {
		b = [2]int{45, 900}
	}
	if tier == "thorough" {
		return b[1]
	}

	return b[0]
}

func cmdRun(args []string) {
	pos, fl := parseFlags(args)
	if len(pos) < 1 {
		die(2, "usage: simcheck run PROPERTY [--tier quick|thorough]")
	}
	prop := pos[0]
	tier := fl["tier"]
	if t := os.Getenv("VERIF_TIER"); t != "" {
		tier = t
	}
	if tier == "" {
		tier = "quick"
	}
	if tier != "quick" && tier != "thorough" {
		die(2, "bad tier %q", tier)
	}
	seed := uint64(20260925)
	if s := os.Getenv("VERIF_SEED"); s != "" {
		v, err := strconv.ParseInt(s, 0, 64)
		if err != nil {
			u, err2 := strconv.ParseUint(s, 0, 64)
			if err2 != nil {
				die(2, "bad VERIF_SEED %q", s)
			}
			seed = u
		} else {
			seed = uint64(v)
		}
	}
	workers := runtime.NumCPU()
	if w := fl["workers"]; w != "" {
		workers, _ = strconv.Atoi(w)
	}
	if workers < 1 {
		workers = 1
	}
	budget := budgetFor(prop, tier)
	if b := fl["budget"]; b != "" {
		budget, _ = strconv.Atoi(b)
	}
	maxRuns := 0
	if m := fl["max-runs"]; m != "" {
		maxRuns, _ = strconv.Atoi(m)
	}
	var only []int
	if o := fl["only"]; o != "" {
		for _, x := range strings.Split(o, ",") {
			v, _ := strconv.Atoi(x)
			only = append(only, v)
		}
	}
	fmt.Printf("simcheck: property=%s tier=%s VERIF_SEED=%d workers=%d budget=%ds\n", prop, tier, int64(seed), workers, budget)
	start := time.Now()

	scratch, err := os.MkdirTemp("", "verif-sim-")
	if err != nil {
		die(2, "mktemp: %v", err)
	}
	keep := fl["keep"] == "true"
	defer func() {
		if !keep {
			os.RemoveAll(scratch)
		}
	}()
	exit := func(code int) {
		if !keep {
			os.RemoveAll(scratch)
		}
		os.Exit(code)
	}
	bres, err := build.Build(scratch, fl["race"] == "true")
	if err != nil {
		fmt.Fprintf(os.Stderr, "BUILD-TROUBLE: %v\n", err)
		exit(2)
	}
	buildS := time.Since(start).Seconds()
	fmt.Printf("simcheck: built in %.1fs (instrumented %d files; %d lock, %d unlock, %d yield sites, %d goroutine bodies)\n",
		buildS, bres.Files, bres.Stats.Locks, bres.Stats.Unlocks, bres.Stats.Yields, bres.Stats.GoBodies)

	replayDir := filepath.Join(verifDir, "replays")
	var knownPats []string
	for _, k := range loadKnown() {
		if k.Property == prop && k.Status == "open" {
			knownPats = append(knownPats, k.Signature)
		}
	}
	var wg sync.WaitGroup
	var hungMu sync.Mutex
	var hungIdx []int
	outs := make([]*workerOut, workers)
	errs := make([]string, workers)
	for w := 0; w < workers; w++ {
		wg.Add(1)
		go func(w int) {
			defer wg.Done()
			j := job{Mode: "run", Property: prop, Tier: tier, Seed: seed, Worker: w, Workers: workers, BudgetS: budget,
				Out: filepath.Join(scratch, fmt.Sprintf("w%d.json", w)), ReplayDir: replayDir, MaxRuns: maxRuns, LogDir: fl["log-dir"],
				NoShrink: fl["no-shrink"] == "true", Only: only, Known: knownPats, SkipEnum: fl["skip-enum"] == "true"}
			jb, _ := json.Marshal(j)
			jp := filepath.Join(scratch, fmt.Sprintf("job%d.json", w))
			_ = os.WriteFile(jp, jb, 0o644)
			cmd := exec.Command(bres.Binary, "-test.run", "^TestWorker$", "-test.timeout", "12h", "-test.count", "1")
			cmd.Env = append(os.Environ(), "SIM_JOB="+jp, "GODEBUG=asyncpreemptoff=1", "GOMAXPROCS=1")
			if fl["race"] == "true" {
				// reports go to files; the worker keeps running (a report is an observation of the batch)
				cmd.Env = append(cmd.Env, "SIM_RACE=1", fmt.Sprintf("GORACE=log_path=%s halt_on_error=0 exitcode=0 history_size=2", filepath.Join(scratch, fmt.Sprintf("race-w%d", w))))
			}
			cmd.Dir = scratch
			logf, _ := os.Create(filepath.Join(scratch, fmt.Sprintf("w%d.log", w)))
			cmd.Stdout = logf
			cmd.Stderr = logf
			runErr := cmd.Start()
			if runErr == nil {
				// parent-side watchdog: a worker stuck in a non-preemptible loop
				// cannot run its own watchdog; it stops touching its heartbeat file
				doneCh := make(chan error, 1)
				go func() { doneCh <- cmd.Wait() }()
				tick := time.NewTicker(5 * time.Second)
			wait:
				for {
					select {
					case runErr = <-doneCh:
						break wait
					case <-tick.C:
						if fi, err := os.Stat(j.Out + ".hb"); err == nil && time.Since(fi.ModTime()) > 75*time.Second {
							_ = cmd.Process.Signal(syscall.SIGQUIT)
							select {
							case <-doneCh:
							case <-time.After(10 * time.Second):
								_ = cmd.Process.Kill()
								<-doneCh
							}
							runErr = fmt.Errorf("killed: no heartbeat for 75 s")
							cur, _ := os.ReadFile(j.Out + ".cur")
							idx, _ := strconv.Atoi(strings.TrimSpace(string(cur)))
							hungMu.Lock()
							hungIdx = append(hungIdx, idx)
							hungMu.Unlock()

							break wait
						}
					}
				}
				tick.Stop()
			}
			logf.Close()
			b, rerr := os.ReadFile(j.Out)
			if rerr == nil {
				var wo workerOut
				if json.Unmarshal(b, &wo) == nil {
					outs[w] = &wo
				}
			}
			if fl["race"] == "true" && outs[w] != nil {
				runErr = nil // the testing package marks the worker failed whenever the detector spoke
			}
			if runErr != nil || outs[w] == nil {
				lg, _ := os.ReadFile(filepath.Join(scratch, fmt.Sprintf("w%d.log", w)))
				tail := string(lg)
				if len(tail) > 6000 {
					tail = tail[len(tail)-6000:]
				}
				errs[w] = fmt.Sprintf("worker %d: %v\n%s", w, runErr, tail)
			}
		}(w)
	}
	wg.Wait()
	// workers whose own watchdog fired report the index in their output
	for w, o := range outs {
		if o != nil && o.Hung != "" {
			cur, _ := os.ReadFile(filepath.Join(scratch, fmt.Sprintf("w%d.json.cur", w)))
			if idx, err := strconv.Atoi(strings.TrimSpace(string(cur))); err == nil {
				hungIdx = append(hungIdx, idx)
			}
		}
	}
	// confirm each hang in a fresh process; a reproducible hang is a verdict
	var hangViolations []violationRec
	sort.Ints(hungIdx)
	if len(hungIdx) > 4 {
		fmt.Fprintf(os.Stderr, "simcheck: %d runs hung; confirming the first 4\n", len(hungIdx))
		hungIdx = hungIdx[:4]
	}
	var hwg sync.WaitGroup
	for k, idx := range hungIdx {
		hwg.Add(1)
		go func(k, idx int) {
			defer hwg.Done()
			rf := map[string]any{"property": prop, "seed": runSeed(seed, prop, idx), "root_seed": seed, "index": idx, "tier": tier, "mode": "seed",
				"signature": "hang:no-quiescence", "message": "the run never reached a quiescent point again: library code spins or blocks outside the simulator's control (see stack dump)"}
			_ = os.MkdirAll(replayDir, 0o755)
			name := filepath.Join(replayDir, fmt.Sprintf("%s-%d-%d-hang.json", prop, seed, idx))
			b, _ := json.MarshalIndent(rf, "", " ")
			_ = os.WriteFile(name, b, 0o644)
			sub := filepath.Join(scratch, fmt.Sprintf("hang%d", k))
			_ = os.MkdirAll(sub, 0o755)
			if hung, _ := replayHangs(bres.Binary, sub, name); hung {
				hungMu.Lock()
				hangViolations = append(hangViolations, violationRec{Index: idx, Seed: runSeed(seed, prop, idx), Signature: "hang:no-quiescence",
					Message: fmt.Sprintf("run %d does not terminate (confirmed in a fresh process): library code spins or blocks outside the simulator's control", idx), Replay: name, Confirmed: 1})
				hungMu.Unlock()
			} else {
				fmt.Fprintf(os.Stderr, "HANG-NOT-REPRODUCED index %d (harness trouble, not a verdict)\n", idx)
				os.Remove(name)
			}
		}(k, idx)
	}
	hwg.Wait()
	trouble := false
	for w, e := range errs {
		if e != "" {
			trouble = true
			fmt.Fprintf(os.Stderr, "WORKER-TROUBLE %d: %s\n", w, e)
		}
	}

	// aggregate
	agg := &workerOut{Property: prop, Faults: map[string]int{}, Probes: map[string]int{}, Classes: map[string]int{}, Notes: map[string]int{}}
	traceSet := map[uint64]bool{}
	schedSet := map[uint64]bool{}
	enumDone := true
	var samples []json.RawMessage
	for _, o := range outs {
		if o == nil {
			enumDone = false

			continue
		}
		agg.Runs += o.Runs
		agg.EnumRuns += o.EnumRuns
		enumDone = enumDone && o.EnumDone
		agg.SimNs += o.SimNs
		agg.Steps += o.Steps
		agg.Parks += o.Parks
		agg.Contended += o.Contended
		agg.Leaks += o.Leaks
		for k, v := range o.Faults {
			agg.Faults[k] += v
		}
		for k, v := range o.Probes {
			if strings.HasPrefix(k, "max:") {
				if v > agg.Probes[k] {
					agg.Probes[k] = v
				}

				continue
			}
			agg.Probes[k] += v
		}
		for k, v := range o.Classes {
			agg.Classes[k] += v
		}
		for k, v := range o.Notes {
			agg.Notes[k] += v
		}
		for _, h := range o.TraceHashes {
			traceSet[h] = true
		}
		for _, h := range o.SchedHashes {
			schedSet[h] = true
		}
		agg.Violations = append(agg.Violations, o.Violations...)
		if len(samples) < 3 {
			samples = append(samples, o.Samples...)
		}
		if o.Hung != "" {
			trouble = true
			fmt.Fprintf(os.Stderr, "WORKER-HUNG %d: %s\n", o.Worker, o.Hung)
			if st, err := os.ReadFile(filepath.Join(scratch, fmt.Sprintf("w%d.json.hang-stacks.txt", o.Worker))); err == nil {
				_ = os.MkdirAll(filepath.Join(verifDir, "replays"), 0o755)
				_ = os.WriteFile(filepath.Join(verifDir, "replays", fmt.Sprintf("%s-hang-w%d-stacks.txt", prop, o.Worker)), st, 0o644)
			}
		}
	}
	if len(samples) > 3 {
		samples = samples[:3]
	}
	wall := time.Since(start).Seconds()

	agg.Violations = append(agg.Violations, hangViolations...)
	raceReports := 0
	if fl["race"] == "true" {
		rv, nrep := harvestRaceReports(scratch, prop, replayDir)
		raceReports = nrep
		agg.Violations = append(agg.Violations, rv...)
		agg.Probes["race-detector-reports-total"] = nrep
	}
	_ = raceReports
	known := loadKnown()
	sort.Slice(agg.Violations, func(i, j int) bool { return agg.Violations[i].Index < agg.Violations[j].Index })
	knownHit := map[string]int{}
	var fresh []violationRec
	for _, v := range agg.Violations {
		if k := matchKnown(known, prop, v.Signature); k != nil {
			knownHit[k.ID+" "+k.Signature+"\x00"+k.What]++

			continue
		}
		fresh = append(fresh, v)
	}
	for k, c := range knownHit {
		parts := strings.SplitN(k, "\x00", 2)
		fmt.Printf("KNOWN-FINDING: property=%s %s (signature %s, %d runs)\n", prop, parts[1], parts[0], c)
	}
	printed := map[string]int{}
	for _, v := range fresh {
		printed[v.Signature]++
		if v.Replay == "" {
			continue
		}
		fmt.Printf("VIOLATION property=%s replay=%s\n", prop, v.Replay)
		fmt.Printf("  signature=%s confirmed=%d/3 decisions %d->%d\n  %s\n", v.Signature, v.Confirmed, v.ShrunkFrom, v.ShrunkTo, v.Message)
	}
	for sig, c := range printed {
		fmt.Printf("  violation class %q: %d runs\n", sig, c)
	}

	// evidence
	level := levels[prop]
	if level == "" {
		level = "exploration"
	}
	distinct := len(traceSet)
	cov := map[string]any{
		"evaluations":         agg.Runs,
		"distinct_nontrivial": distinct,
		"rule":                rules[prop],
		"samples":             samples,
		"enumerated_runs":     agg.EnumRuns,
		"exhaustive":          false,
		"enumeration_complete": enumDone && agg.EnumRuns > 0,
		"simulated_time_s":    float64(agg.SimNs) / 1e9,
		"runs_per_hour":       float64(agg.Runs) / wall * 3600,
		"controller_steps":    agg.Steps,
		"faults_fired":        agg.Faults,
		"reach_probes":        agg.Probes,
		"classes":             agg.Classes,
		"distinct_interleavings": len(schedSet),
		"yield_parks":         agg.Parks,
		"contended_lock_acquisitions": agg.Contended,
		"bubble_leaks":        agg.Leaks,
		"workers":             workers,
		"build_s":             buildS,
		"instrumented":        map[string]int{"files": bres.Files, "lock_sites": bres.Stats.Locks, "unlock_sites": bres.Stats.Unlocks, "yield_sites": bres.Stats.Yields, "goroutine_bodies": bres.Stats.GoBodies},
		"real_components":     []string{"pion/dtls (all packages, instrumented copy of the current tree)", "pion/transport netctx/deadline/replaydetector", "Go crypto"},
		"stubbed_components":  []string{"UDP socket (SimPacketConn)", "clock (synctest)", "crypto/rand (cryptotest seeded)", "goroutine and select choice (yield controller, runtime overlay)", "session store (SimStore)"},
		"known_findings_hit":  len(agg.Violations) - len(fresh),
		"notes":               agg.Notes,
	}
	ev := map[string]any{
		"property_id": prop, "tier": tier, "seed": int64(seed), "level": level, "coverage": cov,
		"assumptions": []string{
			"cooperative locks admit barging (superset of real mutex schedules); mutual exclusion itself untouched",
			"a clean batch is evidence over the sampled schedules and fault sequences, not a proof",
		},
		"wall_s": wall, "violations": len(fresh),
	}
	evDir := filepath.Join(verifDir, "evidence")
	if d := os.Getenv("SIMCHECK_EVIDENCE_DIR"); d != "" { // background sweeps: leave the committed evidence alone
		evDir = d
	}
	_ = os.MkdirAll(evDir, 0o755)
	eb, _ := json.MarshalIndent(ev, "", " ")
	if err := os.WriteFile(filepath.Join(evDir, prop+".json"), eb, 0o644); err != nil {
		fmt.Fprintf(os.Stderr, "evidence: %v\n", err)
		trouble = true
	}
	fmt.Printf("simcheck: %s %s: %d runs (%d enumerated, enumeration complete=%v), %d distinct non-trivial traces, %.0f s simulated, %.1f s wall, violations=%d known=%d\n",
		prop, tier, agg.Runs, agg.EnumRuns, enumDone, distinct, float64(agg.SimNs)/1e9, wall, len(fresh), len(agg.Violations)-len(fresh))
	// race-detector tier: a second pass of the sampled runs in a -race build (thorough only)
	raceFound := false
	if tier == "thorough" && raceTierProps[prop] && fl["race"] != "true" && len(only) == 0 {
		self, _ := os.Executable()
		tmpEv, _ := os.MkdirTemp("", "verif-race-ev-")
		sub := exec.Command(self, "run", prop, "--tier", "quick", "--race", "--skip-enum", "--budget", "300", "--workers", strconv.Itoa(workers))
		sub.Env = append(os.Environ(), "SIMCHECK_EVIDENCE_DIR="+tmpEv, "VERIF_TIER=quick", fmt.Sprintf("VERIF_SEED=%d", int64(seed)))
		sub.Dir = verifDir
		sub.Stderr = os.Stderr
		outb, rerr := sub.Output()
		summary := ""
		for _, ln := range strings.Split(string(outb), "\n") {
			if strings.HasPrefix(ln, "VIOLATION ") || strings.HasPrefix(ln, "  ") {
				fmt.Println(ln)
			}
			if strings.HasPrefix(ln, "simcheck: "+prop+" quick:") {
				summary = ln
			}
		}
		fmt.Printf("simcheck: %s race-detector tier: %s\n", prop, strings.TrimPrefix(summary, "simcheck: "+prop+" quick: "))
		code := 0
		if ee, ok := rerr.(*exec.ExitError); ok {
			code = ee.ExitCode()
		} else if rerr != nil {
			code = 2
		}
		switch code {
		case 1:
			raceFound = true
		case 2:
			trouble = true
		}
		// append what the race tier covered to the evidence file
		if eb, err := os.ReadFile(filepath.Join(evDir, prop+".json")); err == nil {
			var m map[string]any
			if json.Unmarshal(eb, &m) == nil {
				var rm map[string]any
				if rb, err := os.ReadFile(filepath.Join(tmpEv, prop+".json")); err == nil {
					_ = json.Unmarshal(rb, &rm)
				}
				m["race_detector_tier"] = map[string]any{"summary": summary, "exit": code,
					"note": "same sampled plans in a -race build (GOMAXPROCS=1, cooperative scheduler); reports whose accessing frames are harness code are discarded; race reports are observations and do not replay",
					"coverage": rm["coverage"]}
				if nb, err := json.MarshalIndent(m, "", " "); err == nil {
					_ = os.WriteFile(filepath.Join(evDir, prop+".json"), nb, 0o644)
				}
			}
		}
		os.RemoveAll(tmpEv)
	}
	if len(fresh) > 0 || raceFound {
		exit(1)
	}
	if trouble {
		exit(2)
	}
	exit(0)
}

// raceTierProps lists the properties whose statement includes freedom from data races.
var raceTierProps = map[string]bool{"C16": true}

func cmdReplay(args []string) {
	pos, fl := parseFlags(args)
	if len(pos) < 1 {
		die(2, "usage: simcheck replay FILE")
	}
	file, _ := filepath.Abs(pos[0])
	raw, err := os.ReadFile(file)
	if err != nil {
		die(2, "%v", err)
	}
	var rf struct {
		Property string `json:"property"`
	}
	if err := json.Unmarshal(raw, &rf); err != nil {
		die(2, "%v", err)
	}
	scratch, err := os.MkdirTemp("", "verif-replay-")
	if err != nil {
		die(2, "mktemp: %v", err)
	}
	defer os.RemoveAll(scratch)
	bres, err := build.Build(scratch, false)
	if err != nil {
		os.RemoveAll(scratch)
		die(2, "BUILD-TROUBLE: %v", err)
	}
	var mode struct {
		Mode string `json:"mode"`
	}
	_ = json.Unmarshal(raw, &mode)
	if mode.Mode == "seed" {
		hung, out := replayHangs(bres.Binary, scratch, file)
		if hung {
			fmt.Printf("VIOLATION property=%s replay=%s\n  signature=hang:no-quiescence\n  the run does not terminate\n", rf.Property, file)
			if fl["trace"] == "true" {
				fmt.Println(out)
			}
			os.RemoveAll(scratch)
			os.Exit(1)
		}
		fmt.Printf("replay of %s terminated: hang not reproduced\n", file)

		return
	}
	j := job{Mode: "replay", File: file, Out: filepath.Join(scratch, "replay.json")}
	jb, _ := json.Marshal(j)
	jp := filepath.Join(scratch, "job.json")
	_ = os.WriteFile(jp, jb, 0o644)
	cmd := exec.Command(bres.Binary, "-test.run", "^TestWorker$", "-test.timeout", "1h", "-test.count", "1")
	cmd.Env = append(os.Environ(), "SIM_JOB="+jp, "GODEBUG=asyncpreemptoff=1", "GOMAXPROCS=1")
	cmd.Dir = scratch
	out, runErr := cmd.CombinedOutput()
	b, rerr := os.ReadFile(j.Out)
	if rerr != nil {
		os.RemoveAll(scratch)
		die(2, "replay worker failed: %v\n%s", runErr, out)
	}
	var res struct {
		Violation  string   `json:"violation"`
		Signature  string   `json:"signature"`
		Expected   string   `json:"expected_signature"`
		Reproduced bool     `json:"reproduced"`
		Trace      []string `json:"trace"`
	}
	_ = json.Unmarshal(b, &res)
	if fl["trace"] == "true" {
		for _, l := range res.Trace {
			fmt.Println(l)
		}
	}
	if res.Reproduced {
		fmt.Printf("VIOLATION property=%s replay=%s\n  signature=%s\n  %s\n", rf.Property, file, res.Signature, res.Violation)
		os.RemoveAll(scratch)
		os.Exit(1)
	}
	fmt.Printf("replay of %s did not reproduce (expected %q, got %q %q)\n", file, res.Expected, res.Signature, res.Violation)
}

// cmdSelftest proves determinism: the same run indices are executed in
// separate processes under different worker counts and GOMAXPROCS settings and
// the per-run trace and schedule hashes must be identical (DESIGN.md §9).
func cmdSelftest(args []string) {
	pos, fl := parseFlags(args)
	if len(pos) < 1 {
		die(2, "usage: simcheck selftest PROPERTY [--runs N] [--tier T]")
	}
	prop := pos[0]
	tier := fl["tier"]
	if tier == "" {
		tier = "quick"
	}
	runs := 200
	if r := fl["runs"]; r != "" {
		runs, _ = strconv.Atoi(r)
	}
	from := 0
	if r := fl["from"]; r != "" {
		from, _ = strconv.Atoi(r)
	}
	scratch, err := os.MkdirTemp("", "verif-selftest-")
	if err != nil {
		die(2, "mktemp: %v", err)
	}
	defer os.RemoveAll(scratch)
	bres, err := build.Build(scratch, false)
	if err != nil {
		os.RemoveAll(scratch)
		die(2, "BUILD-TROUBLE: %v", err)
	}
	var only []int
	for i := 0; i < runs; i++ {
		only = append(only, from+i)
	}
	type cfg struct {
		workers int
		gmp     string
	}
	cfgs := []cfg{{1, "1"}, {4, "4"}, {16, "16"}, {7, "2"}}
	results := make([]map[int]string, len(cfgs))
	for ci, c := range cfgs {
		results[ci] = map[int]string{}
		var wg sync.WaitGroup
		var mu sync.Mutex
		for w := 0; w < c.workers; w++ {
			wg.Add(1)
			go func(w int) {
				defer wg.Done()
				j := job{Mode: "run", Property: prop, Tier: tier, Seed: 20260925, Worker: w, Workers: c.workers, Only: only, NoShrink: true,
					Out: filepath.Join(scratch, fmt.Sprintf("st%d-w%d.json", ci, w)), HashOut: filepath.Join(scratch, fmt.Sprintf("st%d-w%d.hash", ci, w)),
					ReplayDir: filepath.Join(scratch, "replays")}
				if d := os.Getenv("SIMCHECK_SELFTEST_LOGDIR"); d != "" {
					// debugging aid: keep every run's event log, one directory per process configuration
					j.LogDir = filepath.Join(d, fmt.Sprintf("cfg%d", ci))
				}
				jb, _ := json.Marshal(j)
				jp := filepath.Join(scratch, fmt.Sprintf("stjob%d-%d.json", ci, w))
				_ = os.WriteFile(jp, jb, 0o644)
				cmd := exec.Command(bres.Binary, "-test.run", "^TestWorker$", "-test.timeout", "1h", "-test.count", "1")
				cmd.Env = append(os.Environ(), "SIM_JOB="+jp, "GODEBUG=asyncpreemptoff=1", "GOMAXPROCS="+c.gmp)
				cmd.Dir = scratch
				if out, err := cmd.CombinedOutput(); err != nil {
					fmt.Fprintf(os.Stderr, "selftest worker failed: %v\n%s\n", err, out)
				}
				b, _ := os.ReadFile(j.HashOut)
				mu.Lock()
				for _, l := range strings.Split(strings.TrimSpace(string(b)), "\n") {
					f := strings.SplitN(l, " ", 2)
					if len(f) == 2 {
						i, _ := strconv.Atoi(f[0])
						results[ci][i] = strings.TrimSpace(f[1])
					}
				}
				mu.Unlock()
			}(w)
		}
		wg.Wait()
	}
	bad := 0
	for _, i := range only {
		ref, ok := results[0][i]
		if !ok {
			bad++
			fmt.Printf("selftest: run %d missing in reference\n", i)

			continue
		}
		for ci := 1; ci < len(cfgs); ci++ {
			if results[ci][i] != ref {
				bad++
				fmt.Printf("selftest: run %d diverges: workers=1 %q vs workers=%d/GOMAXPROCS=%s %q\n", i, ref, cfgs[ci].workers, cfgs[ci].gmp, results[ci][i])
			}
		}
	}
	fmt.Printf("selftest %s: %d runs x %d process configurations, %d divergences\n", prop, len(only), len(cfgs), bad)
	if bad > 0 {
		os.RemoveAll(scratch)
		os.Exit(1)
	}
}

func splitmix64(x uint64) uint64 {
	x += 0x9e3779b97f4a7c15
	z := x
	z = (z ^ (z >> 30)) * 0xbf58476d1ce4e5b9
	z = (z ^ (z >> 27)) * 0x94d049bb133111eb

	return z ^ (z >> 31)
}

func hashString(s string) uint64 {
	var h uint64 = 1469598103934665603
	for i := 0; i < len(s); i++ {
		h ^= uint64(s[i])
		h *= 1099511628211
	}

	return h
}

// runSeed mirrors verifsim.RunSeed.
func runSeed(root uint64, prop string, idx int) uint64 {
	return splitmix64(splitmix64(root^hashString(prop)) + uint64(idx)*0x9e3779b97f4a7c15)
}

// replayHangs runs a seed-mode replay under a timeout; true = it did not finish.
func replayHangs(binary, scratch, file string) (bool, string) {
	j := job{Mode: "replay", File: file, Out: filepath.Join(scratch, "hang-replay.json")}
	os.Remove(j.Out)
	jb, _ := json.Marshal(j)
	jp := filepath.Join(scratch, "hang-job.json")
	_ = os.WriteFile(jp, jb, 0o644)
	cmd := exec.Command(binary, "-test.run", "^TestWorker$", "-test.timeout", "1h", "-test.count", "1")
	cmd.Env = append(os.Environ(), "SIM_JOB="+jp, "GODEBUG=asyncpreemptoff=1", "GOMAXPROCS=1")
	cmd.Dir = scratch
	var buf strings.Builder
	cmd.Stdout = &buf
	cmd.Stderr = &buf
	if err := cmd.Start(); err != nil {
		return false, err.Error()
	}
	done := make(chan error, 1)
	go func() { done <- cmd.Wait() }()
	select {
	case <-done:
		// exit status 3 = the worker's own watchdog saw no controller step for 45 s
		if cmd.ProcessState != nil && cmd.ProcessState.ExitCode() == 3 {
			return true, buf.String()
		}

		return false, buf.String()
	case <-time.After(70 * time.Second):
		_ = cmd.Process.Signal(syscall.SIGQUIT)
		select {
		case <-done:
		case <-time.After(5 * time.Second):
			_ = cmd.Process.Kill()
			<-done
		}

		return true, buf.String()
	}
}


// harvestRaceReports collects the race detector's reports of a --race batch. A report is a
// violation if a pion/dtls (or pion/transport) frame takes part in it; reports that only involve
// the harness are counted and printed to stderr as harness trouble. Race reports do not replay
// (the detector's instrumentation perturbs the schedule), so the "replay" file is the report.
func harvestRaceReports(scratch, prop, replayDir string) ([]violationRec, int) {
	files, _ := filepath.Glob(filepath.Join(scratch, "race-w*"))
	var out []violationRec
	seen := map[string]bool{}
	total, harness := 0, 0
	defer func() {
		if harness > 2 {
			fmt.Fprintf(os.Stderr, "RACE-IN-HARNESS: %d reports in all whose accessing frames are harness code (discarded)\n", harness)
		}
	}()
	for _, f := range files {
		b, err := os.ReadFile(f)
		if err != nil {
			continue
		}
		for _, rep := range strings.Split(string(b), "==================") {
			if !strings.Contains(rep, "DATA RACE") {
				continue
			}
			total++
			// the accessing function is the first frame under each "Read at / Write at / Previous ..." line
			var funcs []string
			lines := strings.Split(rep, "\n")
			lib := false
			for i, ln := range lines {
				t := strings.TrimSpace(ln)
				if !(strings.HasPrefix(t, "Read at") || strings.HasPrefix(t, "Write at") || strings.HasPrefix(t, "Previous read at") || strings.HasPrefix(t, "Previous write at") ||
					strings.HasPrefix(t, "Atomic") || strings.HasPrefix(t, "Previous atomic")) || i+1 >= len(lines) {
					continue
				}
				fn := strings.TrimSpace(lines[i+1])
				if j := strings.LastIndex(fn, "()"); j > 0 {
					fn = fn[:j]
				}
				funcs = append(funcs, fn)
				if (strings.HasPrefix(fn, "github.com/pion/dtls/v3") || strings.HasPrefix(fn, "github.com/pion/transport/v4")) &&
					!strings.Contains(fn, "verifsim") && !strings.Contains(fn, "verifhook") && !strings.Contains(fn, ".Verif") {
					lib = true
				}
			}
			if !lib {
				harness++
				if harness <= 2 {
					fmt.Fprintf(os.Stderr, "RACE-IN-HARNESS (not a verdict; the harness relies on the cooperative scheduler, not on synchronisation):%s\n", firstLines(rep, 8))
				}

				continue
			}
			sig := "race:" + strings.Join(funcs, "|")
			if seen[sig] {
				out = append(out, violationRec{Signature: sig, Message: "data race (same pair of functions as an earlier report)"})

				continue
			}
			seen[sig] = true
			_ = os.MkdirAll(replayDir, 0o755)
			name := filepath.Join(replayDir, fmt.Sprintf("%s-race-%d.txt", prop, len(seen)))
			_ = os.WriteFile(name, []byte(rep), 0o644)
			out = append(out, violationRec{Signature: sig, Replay: name, Confirmed: 1,
				Message: "the race detector reports a data race in library code (report in the file; race reports are observations and do not replay)"})
		}
	}

	return out, total
}

func firstLines(s string, n int) string {
	ls := strings.Split(s, "\n")
	if len(ls) > n {
		ls = ls[:n]
	}

	return strings.Join(ls, "\n")
}
