package main

// levels and generation rules per property, written into the evidence file.
var levels = map[string]string{
	"C02": "fault_enumeration",
	"C06": "fault_enumeration",
	"C09": "exploration",
}

var rules = map[string]string{
	"C02": "run = handshake variant x fault mask; enumerated: every drop mask over the first N datagrams of each direction for each of 13 variants (plus, thorough, every 5-action mask over the first 3 per direction), then seeded samples with random rates of drop/dup/hold, latencies and timer knobs; non-trivial = at least one fault actually fired; distinct = distinct hash of the full event trace (kinds, endpoints, datagram shapes, decisions)",
	"C06": "run = established session of K records whose datagrams are captured and then presented to the receiver in a generated arrival sequence with repetition; enumerated: every arrival sequence of length L over K records for window sizes 1,2,3,64 (quick K=4,L=6; thorough K=5,L=7), then sampled sessions of up to 400 records with displacements around W-1/W/W+1 and duplicates, W in 1..256, 13 suite/CID/version configurations; oracle = 20-line window model; non-trivial = a duplicate, an out-of-window or a window-edge arrival occurred; distinct = distinct event-trace hash",
	"C09": "run = session config x fault rules during the handshake x 1-4 writer goroutines per side x yield-point schedule (park probability 0-80%) x optional early writes, Close racing writes, injected datagrams; oracle = wire monitor over every datagram each endpoint handed to its socket: (epoch, seq) never repeats and increases per epoch in emission order (legacy headers; DTLS 1.3 unified headers are skipped because the sequence number is encrypted); non-trivial = scheduler parked at least once, a fault fired, or more than one writer; distinct = distinct event-trace hash",
}
