package main

// levels and generation rules per property, written into the evidence file.
var levels = map[string]string{
	"C02": "fault_enumeration",
}

var rules = map[string]string{
	"C02": "run = handshake variant x fault mask; enumerated: every drop mask over the first N datagrams of each direction for each of 13 variants (plus, thorough, every 5-action mask over the first 3 per direction), then seeded samples with random rates of drop/dup/hold, latencies and timer knobs; non-trivial = at least one fault actually fired; distinct = distinct hash of the full event trace (kinds, endpoints, datagram shapes, decisions)",
}
