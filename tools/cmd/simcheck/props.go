package main

// levels and generation rules per property, written into the evidence file.
var levels = map[string]string{
	"C02": "fault_enumeration",
	"C06": "fault_enumeration",
	"C09": "exploration",
	"C12": "fault_enumeration",
	"C16": "exploration",
	"C19": "fault_enumeration",
}

var rules = map[string]string{
	"C02": "run = handshake variant x fault mask; enumerated: every drop mask over the first N datagrams of each direction for each of 13 variants (plus, thorough, every 5-action mask over the first 3 per direction), then seeded samples with random rates of drop/dup/hold, latencies and timer knobs; non-trivial = at least one fault actually fired; distinct = distinct hash of the full event trace (kinds, endpoints, datagram shapes, decisions)",
	"C06": "run = established session of K records whose datagrams are captured and then presented to the receiver in a generated arrival sequence with repetition; enumerated: every arrival sequence of length L over K records for window sizes 1,2,3,64 (quick K=4,L=6; thorough K=5,L=7), then sampled sessions of up to 400 records with displacements around W-1/W/W+1 and duplicates, W in 1..256, 13 suite/CID/version configurations; oracle = 20-line window model; non-trivial = a duplicate, an out-of-window or a window-edge arrival occurred; distinct = distinct event-trace hash",
	"C09": "run = session config x fault rules during the handshake x 1-4 writer goroutines per side x yield-point schedule (park probability 0-80%) x optional early writes, Close racing writes, injected datagrams; oracle = wire monitor over every datagram each endpoint handed to its socket: (epoch, seq) never repeats and increases per epoch in emission order (legacy headers; DTLS 1.3 unified headers are skipped because the sequence number is encrypted); non-trivial = scheduler parked at least once, a fault fired, or more than one writer; distinct = distinct event-trace hash",
	"C12": "run = 1-5 handshake messages (length 0..20000) x MTU (1..1500) x partition (the real sender's fragmentHandshake output, or an adversarial disjoint partition with extra zero-length fragments) x arrival order/duplication/interleaving drawn by the chooser x 1-3 fragments per record, pushed into the real FragmentBuffer shadowed by a bitmap reassembler; enumerated: every partition x every permutation x one duplicate at every position for lengths <= 4 (quick) / 6 (thorough); non-trivial = more arrivals than messages; distinct = distinct event-trace hash over the arrival sequence",
	"C16": "run = (handshake variant | data-phase configuration) x side(s) acted on x controller step at which the action fires x action (Close by 1-4 goroutines, read/write deadline, cleartext fatal alert) x optional expired deadlines before Close x optional Write blocked in the transport x optional yield-point schedule x optional loss; enumerated: Close at each of the first 140 controller steps of 13 handshake variants x {c,s,both}, and at each of 60 steps of 13 data-phase configurations with and without a stalled Write; oracles: every Close returns, every pending call returns, error classes, close_notify count on the wire (DTLS 1.2 without CID), peer Read EOF when the close_notify datagram was delivered, deadline timing, end-of-bubble goroutine leak check; distinct = distinct event-trace hash",
	"C19": "run = DTLS 1.2 configuration (suites, CID layouts incl. send-only, SRTP/ALPN, client cert + session id) x exporting side x (i,j) records exchanged before export x crash of the exporter (socket severed, no Close) x restart from the bytes on the same address x optional corruption (truncation, bit flip, field rewrite incl. epoch 0xffff, sequence number 2^48-3); enumerated: every (i,j) <= 4 x either side x every configuration; oracles: 3 payloads each way after import, exporter and parameters equal, wire numbers continue without reuse, write fails at 2^48, corrupted bytes rejected or harmless, DTLS 1.3 state refused, no panic; distinct = distinct event-trace hash",
}
