#!/bin/bash
# confirm_seeded.sh <id> <patch.diff> <demo_test.go> <demo_place_relative> <demo_run_regex> [pkg]
# Confirms, in a scratch worktree of /repo HEAD, that a seeded change compiles,
# passes the unedited suite, and that its demonstration fails with it and passes without.
set -u
id=$1; patch=$2; demo=$3; place=$4; rx=$5; pkg=${6:-.}
export GOFLAGS=-mod=mod GOPROXY=off
wt=/tmp/mut/confirm-$id
out=/tmp/mut/confirm-$id.log
git -C /repo worktree remove --force $wt >/dev/null 2>&1
git -C /repo worktree add -q --detach $wt HEAD || exit 2
cd $wt
{
echo "== demo on unpatched tree"
cp "$demo" "$wt/$place"
go test -vet=off -count=1 -run "$rx" $pkg > /tmp/mut/confirm-$id.demo0 2>&1; d0=$?
echo "demo_without_patch_exit=$d0"
rm -f "$wt/$place"
echo "== apply patch"
git apply "$patch" || { echo "PATCH-DOES-NOT-APPLY"; }
go build ./... ; echo "build_exit=$?"
echo "== suite with patch"
go test -vet=off -count=1 -timeout 25m ./... > /tmp/mut/confirm-$id.suite 2>&1; s=$?
echo "suite_with_patch_exit=$s"
grep -v "^ok\|no test files" /tmp/mut/confirm-$id.suite | head -20
echo "== demo with patch"
cp "$demo" "$wt/$place"
go test -vet=off -count=1 -run "$rx" $pkg > /tmp/mut/confirm-$id.demo1 2>&1; d1=$?
echo "demo_with_patch_exit=$d1"
} > $out 2>&1
cd /
git -C /repo worktree remove --force $wt >/dev/null 2>&1

tail -3 $out | tr '\n' ' '; grep -h "exit=" $out | tr '\n' ' '; echo
