#!/usr/bin/env python3
"""Generates /verif/MANIFEST.json from the table below (kept next to the driver)."""
import json, os, sys
HERE = os.path.dirname(os.path.abspath(__file__))
ROOT = os.path.dirname(HERE)

CHECKS = {
 "C02": dict(level="fault_enumeration", design="§5 C02",
   text="Every drop mask over the first 4 (quick) / 6 (thorough) datagrams of each direction, for 13 handshake variants, is executed against the real client and server under a virtual clock; thorough adds every 5-action mask (deliver/drop/dup/swap/hold-3) over the first 3 datagrams per direction; then seeded samples with random drop/dup/hold rates, latencies, MTUs and timer settings. Oracle: both HandshakeContext calls return nil within 8 x 61 s of virtual time after the last fault. The enumerated part is exhaustive for its bound; beyond it the result is sampling evidence.",
   note="Trusts: synctest's fake clock and quiescence detection; the cooperative-lock rewrite (mutual exclusion preserved, fairness not); the in-memory socket. A stall is judged only after a bound far above any legitimate retransmission schedule.",
   technique="deterministic simulation: exhaustive fault-mask enumeration + seeded fault sampling over real endpoints on a simulated network and clock"),
 "C06": dict(level="fault_enumeration", design="§5 C06",
   text="Records of an established session are captured and presented to the real receiver in every arrival sequence (with repetition) of length 6 over 4 records (quick) / 7 over 5 (thorough) for replay windows 1, 2, 3 and 64, then in sampled long sessions with displacements around the window edge and windows 1..256, across 17 suite/CID/version configurations; DTLS 1.3 runs also replay every accepted record after 1-3 key updates of the sender. A 20-line reference window model decides, arrival by arrival, must-deliver / must-not-deliver / may-deliver.",
   note="Trusts the capture-and-inject harness (each Write yields exactly one datagram, checked) and the model's reading of the statement: fewer than W behind the newest accepted record => exactly once; older => at most once.",
   technique="deterministic simulation: exhaustive arrival-sequence enumeration + seeded reordering/duplication against a reference window model"),
 "C09": dict(level="exploration", design="§5 C09",
   text="Seeded exploration of goroutine interleavings (yield points at every lock, select and channel send of the instrumented library, parked and released by a seeded controller) of 1-4 concurrent writers per side, handshake retransmissions under loss, injected datagrams provoking alerts, and Close racing writes, over 13 suite/CID/version configurations; a wire monitor independent of the library's codecs checks every emitted record header. NAT rebinds with an echoing server application make path-validation records race application writes. DTLS 1.3 record numbers are decrypted by the reference implementation with the sender's traffic secrets.",
   note="Sampling evidence only. Cooperative locks admit barging, a superset of real mutex schedules. Export/import continuity of record numbers is C19's business; the 2^48 limit is not reached.",
   technique="deterministic simulation: seeded schedule exploration + fault injection with an independent wire monitor"),
 "C12": dict(level="fault_enumeration", design="§5 C12",
   text="The real sender-side fragmentation and the real reassembly buffer are joined by a one-link simulated network that reorders, duplicates and interleaves fragments; every partition x permutation x single duplicate is enumerated for short messages, longer multi-message cases are sampled (MTU 1..1500, lengths to 20000, zero-length fragments, several fragments per record). A bitmap reassembler decides after every arrival what may and must surface. A quarter of the sampled runs are whole small-MTU handshakes under reordering and duplication without loss, which must complete.",
   note="Component-level arena: the fragment buffer and Conn.fragmentHandshake run real code, the record layer around them is the harness; the end-to-end arena covers the Conn code between record layer and buffer. Overlapping (non-partition) fragment sets are out of this property's quantifier and are exercised under C08.",
   technique="deterministic simulation: exhaustive permutation/duplication enumeration + seeded sampling against a reference reassembler"),
 "C16": dict(level="exploration", design="§5 C16",
   text="Close (1-4 concurrent callers), deadlines and cleartext fatal alerts are placed at every controller step of 13 handshake variants and 13 data-phase configurations (with and without a Write blocked in the transport), then sampled with expired deadlines, loss and yield-point schedules. Checks: every call returns, error classes, at most one and (where owed) exactly one close_notify on the wire, peer EOF, deadline timing, and no goroutine survives the bubble.",
   note="close_notify counting is decided on the wire for DTLS 1.2 without connection IDs and through the reference decoder for connection-ID layouts and DTLS 1.3 of established sessions (not for CBC with connection IDs, whose MAC the reference cannot check because of finding F10); the thorough command adds a race-detector tier (the sampled plans, with concurrent state accessors, in a -race build for five minutes; reports do not replay); the quick command has none. A transport that never completes any write is outside the stated quantifier and not simulated.",
   technique="deterministic simulation: action placement at every controller step + seeded schedule/fault sampling, synctest end-of-bubble leak detection"),
 "C19": dict(level="fault_enumeration", design="§5 C19",
   text="The exporting endpoint is crashed (socket severed, no Close) at every prefix (i,j) of records, i,j <= 4, on either side, for every DTLS 1.2 configuration, and restarted from the serialised bytes on a new socket at the same address; sampled runs add longer prefixes, datagrams in flight, and corruption of the bytes. The untouched peer is the judge: data flows both ways, keying material and parameters are equal, record numbers continue.",
   note="Corrupted states are held to the statement only: rejected, or a connection whose records the peer never delivers; no panic.",
   technique="deterministic simulation: crash-point enumeration + seeded corruption of the durable image"),
 "C01": dict(level="exploration", design="§5 C01",
   text="Seeded sampling of compatible configuration pairs (version mode, authentication mode, client-auth policy, EMS policies, suite/curve lists in independent orders, CID generators, SRTP/MKI, ALPN, MTU, hello-verify, session stores with resumption) crossed with lossy/duplicating/reordering delivery of the handshake; whenever both sides report success their complete session views are compared through the public API, a read-only accessor for version and CIDs, and the wire, and data must flow both ways.",
   note="Agreement is asserted only when both sides succeed (completion is C02's and C11's business). For resumed connections an empty peer chain is accepted: an abbreviated handshake presents no certificate.",
   technique="deterministic simulation: seeded configuration-pair and delivery-schedule sampling with a cross-endpoint agreement oracle"),
 "C11": dict(level="exploration", design="§5 C11",
   text="Seeded sampling of arbitrary option-set pairs, including pairs disjoint in exactly one dimension and two-connection histories whose second connection changes policy over shared session stores; a 150-line policy model (set membership and highest common version only) decides whether completion is allowed and, on completion, every negotiated value is read back from both endpoints and from the wire (hellos, ServerKeyExchange curve, key_share group) and checked against both configurations.",
   note="SRTP/ALPN lists without overlap may legitimately end in failure or in 'nothing selected'; only an out-of-list value is a violation. Signature schemes are varied for ECDSA certificates (disjoint and overlapping signature_algorithms lists); the scheme actually used is read from the DTLS 1.2 ServerKeyExchange (in DTLS 1.3 CertificateVerify is encrypted, so only completion is judged). 'Fails with an alert' is asserted of the wire (some fatal alert emitted), never of a receiver that may not have got it.",
   technique="deterministic simulation: seeded configuration-pair sampling against an executable policy model, wire-level read-back"),
 "C17": dict(level="exploration", design="§5 C17",
   text="Emission timestamps on the virtual clock (tolerance zero) are compared with the timer law from the first transmission of each endpoint's current flight, through 16 virtual minutes of silence, after a cut-heal-cut sequence that exercises the reset rule, and under an adversary that re-delivers already-received flights with fresh record numbers or garbage; plus never-on-timer rules for cookie requests and finished DTLS 1.2 endpoints and a linear storm bound.",
   note="The exact law is only asserted where the statement conditions it: nothing (or, for DTLS 1.2, only stale input) delivered since the flight's first transmission. DTLS 1.3 under stale input is held to the storm bound only (it legitimately answers retransmissions at once).",
   technique="deterministic simulation: virtual-clock timing oracle under partitions and stale-flight injection"),
 "C14": dict(level="exploration", design="§5 C14",
   text="Seeded histories of 2-4 connections over two simulated session stores whose every Get/Set/Del is a recorded decision (error, lost write, stale, swapped, flipped, truncated), with loss on the abbreviated flights, lost server stores and provoked fatal alerts. The oracle compares what the two stores actually handed out with what the endpoints report and what the wire shows (abbreviated or full handshake, hello randoms, CIDs), and checks store contents after fatal alerts.",
   note="Secrets differing only in trailing zero bytes are treated as equal (HMAC pads keys with zeros, so TLS cannot tell them apart). A store that returns a session it was told to delete is not held against the endpoint.",
   technique="deterministic simulation: seeded connection histories over a fault-injecting session store"),
 "C08": dict(level="exploration", design="§5 C08",
   text="Seeded injection of hostile datagrams (grammar-aware mutants of captured traffic, tiny complete handshake messages with boundary-valued length prefixes, noise, reassembly floods) at drawn instants of 13 handshake variants and 17 data configurations, towards either endpoint and from spoofed or unrelated addresses; against established sessions of every suite family additionally block-cipher tail and padding constructions computed from captured ciphertext, and content sealed under the peer's real keys by the independent reference record layer that is malformed inside (empty or all-zero inner plaintext, unknown inner types, handshake messages with impossible lengths, odd ACKs, protected change_cipher_spec). Panics in library goroutines are caught by an injected recover and reported with their stack; runs that never become quiescent again are detected by deterministic step and emission budgets and a parent-process watchdog and confirmed in a fresh process; buffer sizes are read through an accessor at quiescent points; with only unparseable or unauthenticatable input the genuine handshake must complete and established sessions must keep delivering data.",
   note="Handshake-phase injection of parseable cleartext handshake records may legitimately derail a handshake and is held to the safety clauses only, as is keyed malformed content (an endpoint may answer it with a fatal alert and close). Heap growth is bounded through the library's own queue/fragment/table sizes, not by measuring the Go heap.",
   technique="deterministic simulation: seeded hostile-datagram injection (unauthenticated and reference-keyed) with crash, livelock and buffer-bound oracles"),
 "C13": dict(level="fault_enumeration", design="§5 C13",
   text="A real server is driven by a scripted unauthenticated sender built on a genuine ClientHello: every kind of second ClientHello (cookie absent, wrong, stale, truncated, extended, right cookie with one altered field) after a first one is enumerated for DTLS 1.2, 1.3 and dual-stack servers with several repetition/timing settings, and longer mixed sequences with gaps up to ten virtual minutes and changing source addresses are sampled. Everything the server emits is parsed by the independent wire monitor and compared with a reference predicate for 'valid echo'.",
   note="The sender is a byte-level script (no second protocol stack): cookies are spliced into the captured ClientHello (cookie field for 1.2, cookie extension for 1.3). The bytes-out/bytes-in ratio is not a verdict (the statement bounds the kind of message, not its size).",
   technique="deterministic simulation: enumerated and sampled scripted-peer sequences against a wire-level reference predicate"),
 "C10": dict(level="exploration", design="§5 C10",
   text="Interoperability with an independent implementation (refdtls: own PRF, key-block partition, GCM/CCM/ChaCha20/CBC record layouts, RFC 9146 additional data and MAC input, HKDF-Expand-Label with the dtls13 prefix, record nonce and sequence-number encryption, RFC 3610 CCM written from the RFC) on the records and secrets that simulated sessions actually produce, in both directions: the reference opens and recomputes everything the library emits, and the library must accept what the reference seals.",
   note="The formulas are pure functions; this check covers their input space only as far as simulated sessions reach (suites x layouts x sizes x EMS x resumption), and says so. ECDHE premaster secrets of two real endpoints are not visible, so the DTLS 1.2 master-secret derivation is recomputed only for plain-PSK suites. The DTLS 1.3 key schedule (early, handshake and master secret, handshake and application traffic secrets, Finished, CertificateVerify) is exercised end to end by putting the real client in front of a complete server built on the reference implementation; the DTLS 1.3 exporter is finding F5 under C07.",
   technique="deterministic simulation with an independent reference implementation as passive decoder and active record forger"),
 "C05": dict(level="fault_enumeration", design="§5 C05",
   text="Each captured protected record of an established session is presented to the real receiver in dozens of mutated forms (bit, field, truncation, extension, splice and cross-session mutants) before and after the genuine copy, for every suite family, CID layout and both protocol versions; the independent reference model, not the library, decides whether a mutant still authenticates, and the receiver's socket and Read are watched after every single injection.",
   note="Mutants that stop claiming protection (epoch rewritten to 0, type rewritten to change_cipher_spec) are held only to 'Read returns only what was written': the statement's vanish clause does not cover them. Mutants are sampled per record, not exhaustively enumerated over all bit positions.",
   technique="deterministic simulation: per-record mutant injection judged by an independent reference decoder"),
 "C07": dict(level="exploration", design="§5 C07",
   text="Seeded exploration of Write racing handshake completion, retransmission, alerts and Close (yield-point scheduler, lossy handshakes, forged cleartext application records), with every secret a unique marker that is searched for in every datagram either endpoint hands to its socket, plus wire-level rules about what may appear unprotected in each protocol version and a differential check that the exporter is not a function of the cleartext handshake.",
   note="The exporter clause is a per-session differential check against a fixed family of public-only derivations, not a proof of secrecy; its RFC value for DTLS 1.2 is checked under C10. Alerts are not among the items the statement lists and may be emitted in clear.",
   technique="deterministic simulation: seeded schedule and fault exploration with marker scanning of all emitted datagrams"),
 "C20": dict(level="exploration", design="§5 C20",
   text="Seeded exploration of concurrent UpdateKeys calls and writers on both sides of an established DTLS 1.3 session under loss, duplication and reordering of KeyUpdate and ACK records, with late duplicates, record numbers beyond 2^16 and a reference-forged future-epoch record; the independent refdtls decoder reads epochs, sequence numbers, KeyUpdate and ACK contents off the wire.",
   note="'No longer retained' epochs are not probed (which old epochs are retained is implementation policy); only the not-yet-authorised direction is forged. ACK-before-success is a lower-bound check under concurrency (some KeyUpdate record of the caller acknowledged before each success).",
   technique="deterministic simulation: seeded schedule and fault exploration with reference decoding of protected records"),
 "C03": dict(level="fault_enumeration", design="§5 C03",
   text="Every combination of honest role, version, credential type, verification policy and single authentication deviation (376 cases) is executed against a Byzantine peer: the real library with credentials or a signing key that deviate in exactly one way (wrong CA, name, validity window at the virtual clock, foreign private key, corrupted or mis-targeted signature through a custom crypto.Signer, the victim's chain hidden behind the rogue's own certificate, a signature forged from the public key under a mismatching scheme, missing certificate, wrong PSK or identity), a DTLS 1.3 client whose final flight is replaced by a forged ACK, and a scripted DTLS 1.3 server built on the independent reference implementation that leaves out Certificate and/or CertificateVerify, and a DTLS 1.2 client that stops after ClientKeyExchange and then offers the unfinished handshake's session for resumption on a second connection; on a clean link and under loss/duplication/reordering of the rogue's flights. An independent predicate over policy and deviation decides whether the honest side may succeed.",
   note="Deviations that need a peer which omits a message yet computes a matching Finished are scripted for DTLS 1.3 servers only (refdtls key schedule); the DTLS 1.2 equivalents (no Certificate / no CertificateVerify from a scripted peer) are not generated, message removal by a man in the middle being C04's business. With VerifyClientCertIfGiven a client that presents nothing is accepted.",
   technique="deterministic simulation: enumeration of single authentication deviations by a Byzantine peer (real library with rogue credentials, or scripted on an independent reference implementation) against a policy predicate"),
 "C04": dict(level="fault_enumeration", design="§5 C04",
   text="A man in the middle inside the simulated network rewrites every copy of one cleartext handshake message with one deterministic function (field-level for hellos, bit-level for the other messages), for every message type of each handshake mode, crossed with key exchange, EMS policy, resumption and hello verification; if an altered copy went through, no endpoint may report success.",
   note="Only messages that travel in a single fragment are rewritten (configurations are chosen so that they do). HelloVerifyRequest is not a target: it is outside the Finished hash by design (RFC 6347 4.2.1). DTLS 1.3 messages after ServerHello are encrypted and cannot be rewritten by an on-path attacker.",
   technique="deterministic simulation: consistent in-transit rewriting of handshake messages (man in the middle in the simulated network)"),
 "C15": dict(level="exploration", design="§5 C15",
   text="Seeded scripts of NAT rebinds, returns to the old address, and an on-path attacker that replays, forwards fresh or presents stale records from a third address, crossed with client/server connection ID lengths (absent, 0, 1, 4, 8, 32, 200 bytes), both protocol versions and a man in the middle that strips the return-routability extension; the server's RemoteAddr and everything it emits are checked against the statement (own CID on every protected record, 3x byte bound towards unvalidated addresses, change only after a path_response carrying the cookie of the newest path_challenge sent to the new address arrives from it within one second - both decoded by the reference implementation -, a challenge only after an authentic newest record from that address, never without negotiation, never to the attacker), including periods in which every path_response is late while other traffic from the new address keeps flowing. A second mode drives 2-3 clients (optionally a mix of clients with and without connection IDs) through the real CID-routing listener on a simulated socket while they swap, change and borrow source addresses.",
   note="The listener runs real routing code over a simulated PacketConn (build-time seam R2). The 'newest record' clause is exercised through stale-record and replay scripts and judged per challenge; DTLS 1.3 migration scripts are a quarter of the runs. Client-side migration (server changing address) is not scripted.",
   technique="deterministic simulation: seeded address-rewrite / replay scripts on a simulated network with a wire and RemoteAddr oracle"),
}

NOT_YET = {}
NOT_APPLICABLE = {
 "C18": "Quantified over inputs only: every clause is about Marshal/Unmarshal/Unpack as pure functions of a byte string and a decoding context; there is no clock, schedule, peer, storage or fault for a simulator to control (DESIGN.md §6).",
}

def main():
    props = [json.loads(l)["id"] for l in open(os.path.join(ROOT, "properties.jsonl"))]
    checks = []
    for pid in props:
        c = CHECKS.get(pid)
        if not c:
            continue
        checks.append({
            "property_id": pid,
            "quick_cmd": f"./simcheck run {pid} --tier quick",
            "thorough_cmd": f"./simcheck run {pid} --tier thorough",
            "evidence_file": f"/verif/evidence/{pid}.json",
            "replay_cmd_template": "./simcheck replay {path}",
            "engine": "dsim",
            "level_claimed": {"category": c["level"], "text": c["text"], "design_ref": c["design"]},
            "level_note": c["note"],
            "technique": c["technique"],
        })
    na = []
    for pid in props:
        if pid in CHECKS:
            continue
        reason = NOT_APPLICABLE.get(pid) or NOT_YET.get(pid) or "check not built yet in this round (planned, see DESIGN.md §5); not claimed until it runs"
        na.append({"property_id": pid, "reason": reason})
    m = {
        "version": 1,
        "setup_cmd": "./setup.sh",
        "hooks": {
            "guard": "build overlay + tag verif (nothing is committed to /repo: instrumentation is generated into a scratch directory at check time and mapped over /repo with go build -overlay)",
            "enable": "./simcheck build <dir>  (go1.26.8 test -c -tags verif -overlay <scratch>/overlay.json -modfile <scratch>/go.mod)",
            "baseline_off_cmd": "cd /repo && GOFLAGS=-mod=mod GOPROXY=off go test -json -vet=off -count=1 -timeout 25m ./...",
            "source_commits": [],
            "add_only": False,
        },
        "engines": [{
            "name": "dsim", "path": "/verif/sim",
            "serves_properties": [c["property_id"] for c in checks],
            "kind_free_text": "deterministic simulation with fault injection: real pion/dtls endpoints in a testing/synctest bubble, simulated UDP network/clock/entropy/session store, seeded yield-point scheduler, explicit replayable plans with delta-debugging shrinker",
        }],
        "checks": checks,
        "not_applicable": na,
        "notes": "Hooks: R1 (mutex -> cooperative lock, yield points, goroutine recover) and R2 (listener socket type) are source-to-source transforms of a scratch copy (tools/instrument, tools/build), R3 overlays runtime/select.go of the go1.26.8 toolchain; hooks/repo/* are added files. /repo itself is never modified by a check. Exit codes: 0 held, 1 VIOLATION, 2 harness/build trouble.",
    }
    json.dump(m, open(os.path.join(ROOT, "MANIFEST.json"), "w"), indent=1)
    print("wrote MANIFEST.json with", len(checks), "checks,", len(na), "not_applicable")

if __name__ == "__main__":
    main()
