module veriftools

go 1.26.8
