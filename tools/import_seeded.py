#!/usr/bin/env python3
"""import_seeded.py <outdir> <n> <id> <PROP> <demo_place_rel> <run_regex> [pkg]
Copies change n (1 or 2) of a sub-agent's output directory into /verif/seeded/<id>/."""
import json, os, shutil, sys
out, n, sid, prop, place, rx = sys.argv[1:7]
pkg = sys.argv[7] if len(sys.argv) > 7 else '.'
meta = json.load(open(os.path.join(out, 'meta.json')))
m = meta[int(n) - 1]
d = os.path.join('/verif/seeded', sid)
os.makedirs(d, exist_ok=True)
shutil.copy(os.path.join(out, 'patch%s.diff' % n), os.path.join(d, 'patch.diff'))
demo = os.path.basename(place)
shutil.copy(os.path.join(out, 'demo%s_test.go' % n), os.path.join(d, demo))
json.dump({"id": sid, "property": prop, "breaks": m.get('breaks'), "needs": m.get('needs'),
           "demo": demo, "demo_place": place, "demo_cmd": "go test -vet=off -count=1 -run '%s' %s" % (rx, pkg),
           "agent_reported": {k: m.get(k) for k in ('suite_passed', 'demo_fails_with_patch', 'demo_passes_without_patch')},
           "confirmed_by_me": {"how": "tools/confirm_seeded.sh in a scratch worktree of /repo HEAD (with the fix: commits): patch applies and builds, full unedited suite passes with it, demo fails with it and passes without", "log_tail": []},
           "author": "independent sub-agent given only the property text"}, open(os.path.join(d, 'meta.json'), 'w'), indent=1)
print("imported", sid)
