// Package instrument rewrites pion/dtls (and pion/transport/netctx) sources
// into the cooperative form the simulator needs (DESIGN.md §2.2, rewrite R1):
//
//	X.Lock()            -> verifhook.Lock(X.TryLock, X.Lock, "file:line")
//	X.RLock()           -> verifhook.Lock(X.TryRLock, X.RLock, "file:line")
//	X.Unlock()          -> verifhook.Unlock(X.Unlock)        (also in defer)
//	X.RUnlock()         -> verifhook.Unlock(X.RUnlock)       (also in defer)
//	select {…}, ch <- v -> preceded by verifhook.Yield("file:line")
//	go func() {…}()     -> body starts with `defer verifhook.Recover()`
//
// It needs no type information: method values are used, so a receiver without
// TryLock is a compile error of the instrumented copy (reported as exit 2).
// All edits are textual and stay on the original line, so line numbers of the
// instrumented copy equal those of the tree it was made from.
package instrument

import (
	"fmt"
	"go/ast"
	"go/parser"
	"go/token"
	"sort"
)

const HookImport = "github.com/pion/transport/v4/verifhook"

// Stats counts what one file rewrite did.
type Stats struct {
	Locks, Unlocks, Yields, GoBodies int
}

func (s *Stats) Add(o Stats) {
	s.Locks += o.Locks
	s.Unlocks += o.Unlocks
	s.Yields += o.Yields
	s.GoBodies += o.GoBodies
}

func (s Stats) Total() int { return s.Locks + s.Unlocks + s.Yields + s.GoBodies }

type edit struct {
	from, to int // byte range replaced
	text     string
}

// File rewrites one Go source file. siteName is the short name used in site
// strings. It returns the new source (src itself if nothing matched).
func File(src []byte, siteName string) ([]byte, Stats, error) {
	fset := token.NewFileSet()
	f, err := parser.ParseFile(fset, siteName, src, parser.ParseComments)
	if err != nil {
		return nil, Stats{}, err
	}
	var st Stats
	var edits []edit
	off := func(p token.Pos) int { return fset.Position(p).Offset }
	site := func(p token.Pos) string {
		return fmt.Sprintf("%q", fmt.Sprintf("%s:%d", siteName, fset.Position(p).Line))
	}
	rewriteCall := func(call *ast.CallExpr) {
		sel, ok := call.Fun.(*ast.SelectorExpr)
		if !ok || len(call.Args) != 0 {
			return
		}
		recv := string(src[off(sel.X.Pos()):off(sel.X.End())])
		var text string
		switch sel.Sel.Name {
		case "Lock":
			text = fmt.Sprintf("verifhook.Lock(%s.TryLock, %s.Lock, %s)", recv, recv, site(call.Pos()))
			st.Locks++
		case "RLock":
			text = fmt.Sprintf("verifhook.Lock(%s.TryRLock, %s.RLock, %s)", recv, recv, site(call.Pos()))
			st.Locks++
		case "Unlock":
			text = fmt.Sprintf("verifhook.Unlock(%s.Unlock)", recv)
			st.Unlocks++
		case "RUnlock":
			text = fmt.Sprintf("verifhook.Unlock(%s.RUnlock)", recv)
			st.Unlocks++
		default:
			return
		}
		edits = append(edits, edit{off(call.Pos()), off(call.End()), text})
	}
	needsYield := func(s ast.Stmt) bool {
		for {
			l, ok := s.(*ast.LabeledStmt)
			if !ok {
				break
			}
			s = l.Stmt
		}
		switch s.(type) {
		case *ast.SelectStmt, *ast.SendStmt:
			return true
		}

		return false
	}
	visitList := func(list []ast.Stmt) {
		for _, s := range list {
			if needsYield(s) {
				st.Yields++
				edits = append(edits, edit{off(s.Pos()), off(s.Pos()), "verifhook.Yield(" + site(s.Pos()) + "); "})
			}
		}
	}
	ast.Inspect(f, func(n ast.Node) bool {
		switch x := n.(type) {
		case *ast.ExprStmt:
			if call, ok := x.X.(*ast.CallExpr); ok {
				rewriteCall(call)
			}
		case *ast.DeferStmt:
			if sel, ok := x.Call.Fun.(*ast.SelectorExpr); ok && (sel.Sel.Name == "Unlock" || sel.Sel.Name == "RUnlock") {
				rewriteCall(x.Call)
			}
		case *ast.GoStmt:
			if lit, ok := x.Call.Fun.(*ast.FuncLit); ok {
				p := off(lit.Body.Lbrace) + 1
				edits = append(edits, edit{p, p, " defer verifhook.Recover(); "})
				st.GoBodies++
			}
		case *ast.BlockStmt:
			visitList(x.List)
		case *ast.CaseClause:
			visitList(x.Body)
		case *ast.CommClause:
			visitList(x.Body)
		}

		return true
	})
	if st.Total() == 0 {
		return src, st, nil
	}
	// import on the package clause line keeps line numbers intact.
	p := off(f.Name.End())
	edits = append(edits, edit{p, p, "; import verifhook \"" + HookImport + "\""})
	sort.SliceStable(edits, func(i, j int) bool { return edits[i].from < edits[j].from })
	out := make([]byte, 0, len(src)+len(edits)*64)
	last := 0
	for _, e := range edits {
		if e.from < last {
			return nil, st, fmt.Errorf("%s: overlapping edits at offset %d", siteName, e.from)
		}
		out = append(out, src[last:e.from]...)
		out = append(out, e.text...)
		last = e.to
	}
	out = append(out, src[last:]...)
	// the result must still parse
	if _, err := parser.ParseFile(token.NewFileSet(), siteName, out, 0); err != nil {
		return nil, st, fmt.Errorf("instrumented %s does not parse: %w", siteName, err)
	}

	return out, st, nil
}
