#!/bin/bash
# Runs every registered check of one tier and prints one summary line per property.
# usage: tools/run_all.sh quick|thorough [extra simcheck flags]
cd "$(dirname "$0")/.." || exit 2
tier=${1:-quick}; shift
rc=0
for p in $(python3 -c "import json;print(' '.join(c['property_id'] for c in json.load(open('MANIFEST.json'))['checks']))"); do
  out=$(./simcheck run "$p" --tier "$tier" "$@" 2>&1); e=$?
  echo "$out" | grep -E "^VIOLATION|^KNOWN-FINDING" | cut -c1-160
  echo "$out" | tail -1
  echo "== $p exit=$e"
  [ $e -ne 0 ] && rc=1
done
exit $rc
