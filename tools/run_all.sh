#!/bin/bash
# Runs every registered check of one tier and prints one summary line per property.
# usage: tools/run_all.sh quick|thorough [extra simcheck flags]
# Full output of each check: $RUNALL_LOGS/<id>.log (default /tmp/runall-<seed>)
cd "$(dirname "$0")/.." || exit 2
tier=${1:-quick}; shift
logs=${RUNALL_LOGS:-/tmp/runall-${VERIF_SEED:-default}}
mkdir -p "$logs"
rc=0
for p in $(python3 -c "import json;print(' '.join(c['property_id'] for c in json.load(open('MANIFEST.json'))['checks']))"); do
  ./simcheck run "$p" --tier "$tier" "$@" > "$logs/$p.log" 2>&1; e=$?
  grep -E "^VIOLATION|^KNOWN-FINDING" "$logs/$p.log" | cut -c1-160 | head -8
  tail -1 "$logs/$p.log"
  echo "== $p exit=$e"
  [ $e -ne 0 ] && rc=1
done
exit $rc
