#!/bin/bash
# run_seeded.sh <seeded-id> <PROPERTY> [extra simcheck args...]
# Applies /verif/seeded/<id>/patch.diff to /repo, runs the property's check, and
# ALWAYS restores /repo afterwards. Prints the exit status and violation classes.
set -u
id=$1; prop=$2; shift 2
patch=/verif/seeded/$id/patch.diff
[ -f "$patch" ] || { echo "no such seeded change: $id"; exit 2; }
if [ -n "$(git -C /repo status --porcelain)" ]; then echo "/repo is dirty, refusing"; exit 2; fi
restore() { git -C /repo checkout -- . ; }
trap restore EXIT
git -C /repo apply "$patch" || { echo "patch does not apply"; exit 2; }
log=$(mktemp)
SIMCHECK_EVIDENCE_DIR=$(mktemp -d) timeout 1500 /verif/simcheck run "$prop" "$@" > "$log" 2>&1
rc=$?
echo "seeded=$id property=$prop exit=$rc"
grep "violation class\|^simcheck: $prop\|KNOWN-FINDING\|TROUBLE\|HUNG" "$log" | cut -c1-200 | head -20
rm -f "$log"
exit 0
