#!/bin/bash
# run_seeded.sh <seeded-id> <PROPERTY> [extra simcheck args...]
# Applies /verif/seeded/<id>/patch.diff to a scratch worktree of /repo HEAD (equivalent to
# `git -C /repo apply` + `git -C /repo checkout -- .`, but /repo itself stays untouched so that
# other checks can run meanwhile), runs the property's check against it, removes the worktree.
# The run's evidence goes to a temporary directory, never to /verif/evidence.
set -u
id=$1; prop=$2; shift 2
patch=/verif/seeded/$id/patch.diff
[ -f "$patch" ] || { echo "no such seeded change: $id"; exit 2; }
wt=$(mktemp -d /tmp/seedwt.XXXXXX); ev=$(mktemp -d /tmp/seedev.XXXXXX)
cleanup() { git -C /repo worktree remove --force "$wt" >/dev/null 2>&1; rm -rf "$wt" "$ev"; }
trap cleanup EXIT
git -C /repo worktree add -q --detach "$wt" HEAD || exit 2
git -C "$wt" apply "$patch" || { echo "patch does not apply"; exit 2; }
log=$(mktemp)
SIMCHECK_REPO_DIR="$wt" SIMCHECK_EVIDENCE_DIR="$ev" timeout 1500 /verif/simcheck run "$prop" "$@" > "$log" 2>&1
rc=$?
echo "seeded=$id property=$prop exit=$rc"
grep "violation class\|^simcheck: $prop\|KNOWN-FINDING\|TROUBLE\|HUNG" "$log" | cut -c1-200 | head -20
rm -f "$log"
exit 0
