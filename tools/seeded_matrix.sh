#!/bin/bash
# Runs, for every kept seeded change, the quick check of its own property (plus any extra
# properties listed in seeded/<id>/also) against a scratch worktree of /repo HEAD with the change
# applied, and writes seeded/RESULTS.tsv: id, property, exit status, violation classes seen.
# usage: tools/seeded_matrix.sh [id ...]   (no ids = all, RESULTS.tsv rewritten)
cd "$(dirname "$0")/.." || exit 2
ids=${*:-$(ls seeded | grep -v RESULTS)}
out=seeded/RESULTS.tsv
[ $# -eq 0 ] && : > $out
for id in $ids; do
  [ -f seeded/$id/patch.diff ] || continue
  prop=$(python3 -c "import json;print(json.load(open('seeded/$id/meta.json'))['property'])")
  props="$prop $(cat seeded/$id/also 2>/dev/null)"
  for p in $props; do
    wt=$(mktemp -d /tmp/seedwt.XXXXXX); ev=$(mktemp -d /tmp/seedev.XXXXXX); log=$(mktemp)
    git -C /repo worktree add -q --detach "$wt" HEAD
    if git -C "$wt" apply "$PWD/seeded/$id/patch.diff"; then
      SIMCHECK_REPO_DIR="$wt" SIMCHECK_EVIDENCE_DIR="$ev" timeout 1500 ./simcheck run $p --tier quick > $log 2>&1; rc=$?
      classes=$(grep "violation class" $log | sed 's/.*violation class "\([^"]*\)": \([0-9]*\) runs/\1(\2)/' | head -6 | tr '\n' ' ')
      line="$id\t$p\texit=$rc\t$classes"
    else
      line="$id\t$p\tPATCH-FAILS"
    fi
    sed -i "/^$id\t$p\t/d" $out
    echo -e "$line" >> $out; echo -e "$line"
    git -C /repo worktree remove --force "$wt" >/dev/null 2>&1; rm -rf "$wt" "$ev" "$log"
  done
done
