#!/bin/bash
# Runs, for every kept seeded change, the quick check of its own property (plus any extra
# properties listed in seeded/<id>/also) against /repo with the change applied, and writes
# seeded/RESULTS.tsv: id, property, exit status, violation classes seen.
# /repo is restored after every run. usage: tools/seeded_matrix.sh [id ...]
cd "$(dirname "$0")/.." || exit 2
ids=${*:-$(ls seeded | grep -v RESULTS)}
out=seeded/RESULTS.tsv
[ $# -eq 0 ] && : > $out
for id in $ids; do
  [ -f seeded/$id/patch.diff ] || continue
  prop=$(python3 -c "import json;print(json.load(open('seeded/$id/meta.json'))['property'])")
  props="$prop $(cat seeded/$id/also 2>/dev/null)"
  for p in $props; do
    if [ -n "$(git -C /repo status --porcelain)" ]; then echo "/repo dirty"; exit 2; fi
    git -C /repo apply "$PWD/seeded/$id/patch.diff" || { echo -e "$id\t$p\tPATCH-FAILS" >> $out; continue; }
    log=$(mktemp)
    SIMCHECK_EVIDENCE_DIR=$(mktemp -d) timeout 1500 ./simcheck run $p --tier quick > $log 2>&1; rc=$?
    git -C /repo checkout -- .
    classes=$(grep "violation class" $log | sed 's/.*violation class "\([^"]*\)": \([0-9]*\) runs/\1(\2)/' | head -6 | tr '\n' ' ')
    echo -e "$id\t$p\texit=$rc\t$classes" >> $out
    echo -e "$id\t$p\texit=$rc\t$classes"
    rm -f $log
  done
done
