#!/usr/bin/env python3
"""Regenerates the seeded-change table of DESIGN.md (between the seeded-table markers) from
seeded/*/meta.json and seeded/RESULTS.tsv."""
import json, os, re
root = os.path.dirname(os.path.dirname(os.path.abspath(__file__)))
res = {}
for line in open(os.path.join(root, 'seeded', 'RESULTS.tsv')):
    f = line.rstrip('\n').split('\t')
    if len(f) < 3:
        continue
    res.setdefault(f[0], []).append((f[1], f[2], f[3] if len(f) > 3 else ''))
rows = ['| id | property | what the change does (author\'s words, shortened) | detected by (quick tier) | violation classes |', '|---|---|---|---|---|']
missed = []
for sid in sorted(d for d in os.listdir(os.path.join(root, 'seeded')) if os.path.isdir(os.path.join(root, 'seeded', d))):
    m = json.load(open(os.path.join(root, 'seeded', sid, 'meta.json')))
    what = (m.get('what') or m.get('breaks') or '').replace('|', '/').replace('\n', ' ')
    if len(what) > 170:
        what = what[:168] + '…'
    det, classes = [], []
    for prop, ex, cl in res.get(sid, []):
        if ex == 'exit=1':
            det.append(prop)
            classes += [re.sub(r'\(\d+\)$', '', c) for c in cl.split()][:2]
    if not det:
        missed.append(sid)
    cls = '; '.join(classes)
    if len(cls) > 120:
        cls = cls[:118] + '…'
    rows.append('| %s | %s | %s | %s | %s |' % (sid, m['property'], what, ', '.join(det) or '**missed**', cls))
p = os.path.join(root, 'DESIGN.md')
s = open(p).read()
b, e = '<!-- seeded-table-begin -->', '<!-- seeded-table-end -->'
i, j = s.index(b), s.index(e)
s = s[:i + len(b)] + '\n' + '\n'.join(rows) + '\n' + s[j:]
open(p, 'w').write(s)
print('%d seeded changes, missed: %s' % (len(rows) - 2, missed))
