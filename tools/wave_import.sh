#!/bin/bash
# wave_import.sh <agent-outdir> <n> <seeded-id> <PROPERTY>
# Imports change n of a sub-agent's output directory as /verif/seeded/<id>, confirms it in a scratch
# worktree (builds, unedited suite passes, demo fails with / passes without), then runs the
# property's quick check against it (scratch worktree, /repo untouched).
set -u
out=$1; n=$2; id=$3; prop=$4
cd /verif
read -r place pkg rx < <(python3 - "$out" "$n" <<'PY'
import json,sys
m=json.load(open(sys.argv[1]+'/meta.json'))
m=[x for x in m if int(x.get('n',0))==int(sys.argv[2])][0] if any('n' in x for x in m) else m[int(sys.argv[2])-1]
print(m['demo_place'], m.get('demo_pkg','.'), m.get('demo_run','TestZZDemo'))
PY
)
python3 tools/import_seeded.py "$out" "$n" "$id" "$prop" "$place" "$rx" "$pkg" || exit 2
mkdir -p /tmp/mut
tools/confirm_seeded.sh "$id" "/verif/seeded/$id/patch.diff" "/verif/seeded/$id/$(basename "$place")" "$place" "$rx" "$pkg" | tee /tmp/mut/confirm-$id.summary
python3 - "$id" <<'PY'
import json,sys,re
sid=sys.argv[1]
p='/verif/seeded/%s/meta.json'%sid
m=json.load(open(p))
log=open('/tmp/mut/confirm-%s.log'%sid).read()
m['confirmed_by_me']['log_tail']=re.findall(r'^\w+_exit=\d+$',log,re.M)
json.dump(m,open(p,'w'),indent=1)
PY
tools/run_seeded.sh "$id" "$prop"
